// Shim: the real btcdeb main() (translation unit btcdeb.cpp included unchanged, main renamed) callable with a scripted argv (C08/C12/C15).
#define main btcdeb_main
#include <btcdeb.cpp>
#undef main
extern "C" {
__attribute__((noinline)) int w_btcdeb_main(int argc, char* const* argv) { return btcdeb_main(argc, argv); }
// state of the session the tool built (globals of functions.cpp), for the listing/marker checks
__attribute__((noinline)) int w_session_count() { return count; }
__attribute__((noinline)) const char* w_session_line(int i) { return script_lines[i]; }
__attribute__((noinline)) int w_session_seq() { return env ? env->curr_op_seq : -1; }
__attribute__((noinline)) int w_session_step() { return instance.step() ? 1 : 0; }
__attribute__((noinline)) int w_session_done() { return env->done ? 1 : 0; }
__attribute__((noinline)) int w_session_rewind() { return instance.rewind() ? 1 : 0; }
// everything the listing/marker check needs: what the next step will execute (from the session state) and the listing as built by main()
__attribute__((noinline)) unsigned w_session_dump(unsigned char* out) {
    unsigned char* p = out;
    auto u32 = [&](uint32_t v) { memcpy(p, &v, 4); p += 4; };
    auto bytes = [&](const unsigned char* d, size_t n) { if (n) memcpy(p + 4, d, n); u32((uint32_t)n); p += n; };
    u32((uint32_t)count); u32((uint32_t)env->curr_op_seq); u32(env->done ? 1 : 0);
    u32(env->tce ? 1 : 0); u32(env->tce ? (uint32_t)env->tce->m_i : 0); u32(env->tce ? (uint32_t)env->tce->m_path_len : 0);
    if (env->tce) bytes(env->tce->m_control.data(), env->tce->m_control.size()); else bytes(nullptr, 0);
    bytes(env->script.data(), env->script.size());
    u32((uint32_t)(env->pc - env->script.begin()));
    bytes(env->successor_script.data(), env->successor_script.size());
    u32(env->is_p2sh ? 1 : 0);
    if (env->is_p2sh && !env->p2shstack.empty()) bytes(env->p2shstack.back().data(), env->p2shstack.back().size()); else bytes(nullptr, 0);
    u32((uint32_t)env->sigversion);
    for (int i = 0; i < count; i++) bytes((const unsigned char*)script_lines[i], strlen(script_lines[i]));
    return (unsigned)(p - out);
}
}
