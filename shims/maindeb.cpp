// Shim: the real btcdeb main() (translation unit btcdeb.cpp included unchanged, main renamed) callable with a scripted argv (C08/C12/C15).
#define main btcdeb_main
#include <btcdeb.cpp>
#undef main
extern "C" {
__attribute__((noinline)) int w_btcdeb_main(int argc, char* const* argv) { return btcdeb_main(argc, argv); }
// state of the session the tool built (globals of functions.cpp), for the listing/marker checks
__attribute__((noinline)) int w_session_count() { return count; }
__attribute__((noinline)) const char* w_session_line(int i) { return script_lines[i]; }
__attribute__((noinline)) int w_session_seq() { return env ? env->curr_op_seq : -1; }
__attribute__((noinline)) int w_session_step() { return instance.step() ? 1 : 0; }
__attribute__((noinline)) int w_session_done() { return env->done ? 1 : 0; }
}
