// Shim: the real tap main() (translation unit tap.cpp included unchanged, main renamed) callable with a scripted argv (C06).
#define main tap_main
#include <tap.cpp>
#undef main
extern "C" {
__attribute__((noinline)) int w_tap_main(int argc, char* const* argv) { return tap_main(argc, argv); }
}
