// Shim: the real tap main() (translation unit tap.cpp included unchanged, main renamed) callable with a scripted argv (C06).
#define main tap_main
#include <tap.cpp>
#undef main
extern "C" {
__attribute__((noinline)) int w_tap_main(int argc, char* const* argv) { return tap_main(argc, argv); }
}
// C06 sighash obligations: replace the fields of the parsed transactions that the BIP341 digest signs over by the bytes of a buffer
// (the engine fills it with symbolic bytes; it is called by the engine right before the return of Instance::parse_input_transaction in tap's main()).
extern "C" {
unsigned char verif_tap_sym[40];
__attribute__((noinline)) void w_tap_symbolize(Instance* inst) {
    CMutableTransaction m(*inst->tx);
    memcpy(&m.nVersion, verif_tap_sym, 4); memcpy(&m.nLockTime, verif_tap_sym + 4, 4);
    for (size_t i = 0; i < m.vin.size(); ++i) memcpy(&m.vin[i].nSequence, verif_tap_sym + 8, 4);
    for (size_t i = 0; i < m.vout.size(); ++i) memcpy(&m.vout[i].nValue, verif_tap_sym + 12, 8);
    inst->tx = MakeTransactionRef(m);
    CMutableTransaction f(*inst->txin);
    for (size_t i = 0; i < f.vout.size(); ++i) memcpy(&f.vout[i].nValue, verif_tap_sym + ((int64_t)i == inst->txin_vout_index ? 20 : 28), 8);          // the spent output and the others get different amounts
    inst->txin = MakeTransactionRef(f);
}
}
