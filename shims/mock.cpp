// Shim: Instance::parse_pretend_valid_expr on a C string; dumps the resulting map and set (C11). Glue only.
#include <instance.h>
#include <cstring>
namespace {
struct Wr {
    unsigned char* p;
    void u32(uint32_t v) { memcpy(p, &v, 4); p += 4; }
    void bytes(const std::vector<unsigned char>& v) { if (!v.empty()) memcpy(p + 4, v.data(), v.size()); u32((uint32_t)v.size()); p += v.size(); }
};
}
extern "C" {
__attribute__((noinline)) unsigned w_parse_pretend(const char* expr, unsigned char* out) {
    Wr w{out};
    Instance inst;
    bool ok = inst.parse_pretend_valid_expr(expr);
    w.u32(ok ? 1 : 0);
    w.u32((uint32_t)inst.pretend_valid_map.size());
    for (auto& kv : inst.pretend_valid_map) { w.bytes(kv.first); w.bytes(kv.second); }
    w.u32((uint32_t)inst.pretend_valid_pubkeys.size());
    for (auto& k : inst.pretend_valid_pubkeys) w.bytes(k);
    return (unsigned)(w.p - out);
}
}
