// Shim: script-number codec and the Value conversions built on it (C18). Glue only.
#include <script/script.h>
#include <value.h>
#include <cstring>
extern "C" {
// 0 = decoded (value in *out), 1 = scriptnum_error thrown
__attribute__((noinline)) unsigned w_num_decode(const unsigned char* d, unsigned len, unsigned require_minimal, unsigned maxsize, int64_t* out, int* out_int) {
    std::vector<unsigned char> v(d, d + len);
    try {
        CScriptNum n(v, require_minimal != 0, maxsize);
        *out = n.GetInt64(); *out_int = n.getint();
        return 0;
    } catch (const scriptnum_error&) { return 1; }
}
__attribute__((noinline)) unsigned w_num_encode(int64_t x, unsigned char* out) {
    std::vector<unsigned char> v = CScriptNum::serialize(x);
    if (!v.empty()) memcpy(out, v.data(), v.size());
    return v.size();
}
__attribute__((noinline)) unsigned w_num_getvch(int64_t x, unsigned char* out) {
    std::vector<unsigned char> v = CScriptNum(x).getvch();
    if (!v.empty()) memcpy(out, v.data(), v.size());
    return v.size();
}
// Value(int64).hex_str(): ASCII hex of the encoding
__attribute__((noinline)) unsigned w_value_int_hex(int64_t x, unsigned char* out) {
    std::string s = Value(x).hex_str();
    if (!s.empty()) memcpy(out, s.data(), s.size());
    return s.size();
}
// Value(int64).data_value()
__attribute__((noinline)) unsigned w_value_int_data(int64_t x, unsigned char* out) {
    Value val(x);
    std::vector<unsigned char> v = val.data_value();
    if (!v.empty()) memcpy(out, v.data(), v.size());
    return v.size();
}
// Value(bytes).int_value(): 0 ok, 1 threw
__attribute__((noinline)) unsigned w_value_data_int(const unsigned char* d, unsigned len, int64_t* out) {
    std::vector<unsigned char> v(d, d + len);
    Value val(v);
    try { *out = val.int_value(); return 0; } catch (const std::exception&) { return 1; }
}
}
