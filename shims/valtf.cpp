// Shim: value transforms in their inline form (Value::do_exec) and command form (fn_tf), and the codecs behind them (C14). Glue only.
#include <value.h>
#include <functions.h>
#include <base58.h>
#include <bech32.h>
#include <util/strencodings.h>
#include <cstring>
namespace {
struct Wr {
    unsigned char* p;
    void u32(uint32_t v) { memcpy(p, &v, 4); p += 4; }
    void u64(uint64_t v) { memcpy(p, &v, 8); p += 8; }
    void bytes(const unsigned char* d, size_t n) { if (n) memcpy(p + 4, d, n); u32((uint32_t)n); p += n; }
};
unsigned dump(Wr& w, unsigned char* out, bool handled, Value& v) {
    w.u32(handled ? 1 : 0); w.u32((uint32_t)v.type);
    w.u64((uint64_t)v.int64);
    w.bytes(v.data.data(), v.data.size());
    w.bytes((const unsigned char*)v.str.data(), v.str.size());
    return (unsigned)(w.p - out);
}
}
extern "C" {
// inline form on a data value:  fun(<bytes>)
__attribute__((noinline)) unsigned w_tf_data(const char* fun, const unsigned char* d, unsigned len, unsigned char* out) {
    Wr w{out}; std::vector<unsigned char> vd(d, d + len); Value v(vd);
    bool h = v.do_exec(fun);
    return dump(w, out, h, v);
}
// inline form through the literal parser: Value("fun(arg)")
__attribute__((noinline)) unsigned w_tf_expr(const char* expr, unsigned char* out) {
    Wr w{out}; Value v(expr);
    return dump(w, out, true, v);
}
// command form: what `tf <line>` prints
__attribute__((noinline)) int w_fn_tf(const char* line) { return fn_tf(line); }
// codecs
__attribute__((noinline)) unsigned w_b58_roundtrip(const unsigned char* d, unsigned len, unsigned check, unsigned char* out) {
    Wr w{out}; std::vector<unsigned char> vd(d, d + len), back;
    std::string s = check ? EncodeBase58Check(vd) : EncodeBase58(vd);
    bool ok = check ? DecodeBase58Check(s, back, 100) : DecodeBase58(s, back, 100);
    w.u32(ok ? 1 : 0); w.bytes(back.data(), back.size()); w.bytes((const unsigned char*)s.data(), s.size());
    return (unsigned)(w.p - out);
}
__attribute__((noinline)) unsigned w_b58_decode(const char* s, unsigned check, unsigned char* out) {
    Wr w{out}; std::vector<unsigned char> back;
    bool ok = check ? DecodeBase58Check(s, back, 100) : DecodeBase58(s, back, 100);
    w.u32(ok ? 1 : 0); w.bytes(back.data(), back.size());
    return (unsigned)(w.p - out);
}
// values: 5-bit symbols; returns the encoded string and what Decode gives back for it
__attribute__((noinline)) unsigned w_bech32_roundtrip(unsigned m, const unsigned char* vals, unsigned n, unsigned char* out) {
    Wr w{out}; std::vector<unsigned char> v(vals, vals + n);
    std::string s = bech32::Encode(m ? bech32::Encoding::BECH32M : bech32::Encoding::BECH32, "bc", v);
    bech32::DecodeResult r = bech32::Decode(s);
    w.bytes((const unsigned char*)s.data(), s.size());
    w.u32((uint32_t)r.encoding); w.bytes((const unsigned char*)r.hrp.data(), r.hrp.size()); w.bytes(r.data.data(), r.data.size());
    return (unsigned)(w.p - out);
}
// the same with a caller-chosen human-readable part
__attribute__((noinline)) unsigned w_bech32_roundtrip_hrp(unsigned m, const char* hrp, const unsigned char* vals, unsigned n, unsigned char* out) {
    Wr w{out}; std::vector<unsigned char> v(vals, vals + n);
    std::string s = bech32::Encode(m ? bech32::Encoding::BECH32M : bech32::Encoding::BECH32, hrp, v);
    bech32::DecodeResult r = bech32::Decode(s);
    w.bytes((const unsigned char*)s.data(), s.size());
    w.u32((uint32_t)r.encoding); w.bytes((const unsigned char*)r.hrp.data(), r.hrp.size()); w.bytes(r.data.data(), r.data.size());
    return (unsigned)(w.p - out);
}
__attribute__((noinline)) unsigned w_bech32_decode(const char* s, unsigned char* out) {
    Wr w{out};
    bech32::DecodeResult r = bech32::Decode(s);
    w.u32((uint32_t)r.encoding); w.bytes((const unsigned char*)r.hrp.data(), r.hrp.size()); w.bytes(r.data.data(), r.data.size());
    return (unsigned)(w.p - out);
}
}
