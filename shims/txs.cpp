// Shim: transaction (de)serialisation, ids, compact-size codec and the --tx amount prefix parser (C13). Glue only.
#include <primitives/transaction.h>
#include <streams.h>
#include <serialize.h>
#include <instance.h>
#include <cstring>
CTransactionRef parse_tx(const char* p);   // instance.cpp
namespace {
struct Wr {
    unsigned char* p;
    void u32(uint32_t v) { memcpy(p, &v, 4); p += 4; }
    void u64(uint64_t v) { memcpy(p, &v, 8); p += 8; }
    void bytes(const unsigned char* d, size_t n) { if (n) memcpy(p + 4, d, n); u32((uint32_t)n); p += n; }
};
template <typename T> void dump_tx(Wr& w, const T& tx) {
    w.u32((uint32_t)tx.nVersion); w.u32(tx.nLockTime);
    w.u32((uint32_t)tx.vin.size());
    for (auto& in : tx.vin) {
        w.bytes(in.prevout.hash.begin(), 32); w.u32(in.prevout.n); w.bytes(in.scriptSig.data(), in.scriptSig.size()); w.u32(in.nSequence);
        w.u32((uint32_t)in.scriptWitness.stack.size());
        for (auto& it : in.scriptWitness.stack) w.bytes(it.data(), it.size());
    }
    w.u32((uint32_t)tx.vout.size());
    for (auto& o : tx.vout) { w.u64((uint64_t)o.nValue); w.bytes(o.scriptPubKey.data(), o.scriptPubKey.size()); }
}
}
extern "C" {
// out: status (0 parsed, 1 exception), fields, re-serialisation (with witness), txid, wtxid
__attribute__((noinline)) unsigned w_tx_parse(const unsigned char* data, unsigned len, unsigned char* out) {
    Wr w{out};
    std::vector<unsigned char> v(data, data + len);
    try {
        CDataStream ss(v, SER_DISK, 0);
        CMutableTransaction mtx;
        UnserializeTransaction(mtx, ss);
        CTransaction tx(mtx);
        w.u32(0);
        w.u32((uint32_t)ss.size());           // unread bytes
        dump_tx(w, tx);
        CDataStream so(SER_DISK, 0);
        SerializeTransaction(tx, so);
        w.bytes((const unsigned char*)so.data(), so.size());
        w.bytes(tx.GetHash().begin(), 32);
        w.bytes(tx.GetWitnessHash().begin(), 32);
    } catch (const std::exception&) {
        w.p = out; w.u32(1);
    }
    return (unsigned)(w.p - out);
}
// instance.cpp's parse_tx on a hex C string: 0 parsed (txid follows), 1 returned nullptr, 2 threw
__attribute__((noinline)) unsigned w_parse_tx_hex(const char* hex, unsigned char* out) {
    Wr w{out};
    try {
        CTransactionRef tx = parse_tx(hex);
        if (!tx) { w.u32(1); return 4; }
        w.u32(0); dump_tx(w, *tx); w.bytes(tx->GetHash().begin(), 32);
    } catch (const std::exception&) { w.p = out; w.u32(2); }
    return (unsigned)(w.p - out);
}
// 0 ok (*val, *used), 1 exception
__attribute__((noinline)) unsigned w_read_compact(const unsigned char* data, unsigned len, uint64_t* val, unsigned* used) {
    std::vector<unsigned char> v(data, data + len);
    try { CDataStream ss(v, SER_DISK, 0); *val = ReadCompactSize(ss); *used = len - ss.size(); return 0; } catch (const std::exception&) { return 1; }
}
__attribute__((noinline)) unsigned w_write_compact(uint64_t x, unsigned char* out) {
    CDataStream ss(SER_DISK, 0); WriteCompactSize(ss, x);
    if (ss.size()) memcpy(out, ss.data(), ss.size());
    return ss.size();
}
// the amount list in front of --tx=<amounts>:<hex>   (Instance::parse_transaction with parse_amounts); txhex is a minimal valid tx
__attribute__((noinline)) unsigned w_parse_amounts(const char* txdata, unsigned char* out) {
    Wr w{out};
    Instance inst;
    bool ok;
    try { ok = inst.parse_transaction(txdata, true); } catch (const std::exception&) { w.u32(2); return 4; }
    w.u32(ok ? 1 : 0);
    w.u32((uint32_t)inst.amounts.size());
    for (auto a : inst.amounts) w.u64((uint64_t)a);
    return (unsigned)(w.p - out);
}
}
