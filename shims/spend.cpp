// Shim: the --tx/--txin session set-up (Instance::parse_input_transaction selection, configure_tx_txin, setup_environment) (C03). Glue only.
#include <instance.h>
#include <streams.h>
#include <cstring>
namespace {
struct Wr {
    unsigned char* p;
    void u32(uint32_t v) { memcpy(p, &v, 4); p += 4; }
    void u64(uint64_t v) { memcpy(p, &v, 8); p += 8; }
    void bytes(const unsigned char* d, size_t n) { if (n) memcpy(p + 4, d, n); u32((uint32_t)n); p += n; }
};
CTransactionRef from_bytes(const unsigned char* d, unsigned len) {
    std::vector<unsigned char> v(d, d + len);
    CDataStream ss(v, SER_DISK, 0);
    CMutableTransaction mtx;
    UnserializeTransaction(mtx, ss);
    return MakeTransactionRef(CTransaction(mtx));
}
}
extern "C" {
// set-up of the session for input txin_index spending output vout_index of txin
__attribute__((noinline)) unsigned w_configure(const unsigned char* txb, unsigned txlen, const unsigned char* inb, unsigned inlen, unsigned txin_index, unsigned vout_index, unsigned flags, unsigned char* out) {
    Wr w{out};
    Instance inst;
    inst.tx = from_bytes(txb, txlen); inst.txin = from_bytes(inb, inlen);
    inst.txin_index = txin_index; inst.txin_vout_index = vout_index;
    while (inst.amounts.size() < inst.tx->vin.size()) inst.amounts.push_back(0);
    if (inst.tx->HasWitness()) inst.sigver = SigVersion::WITNESS_V0;       // as parse_transaction does
    bool ok;
    try { ok = inst.configure_tx_txin(); } catch (const std::exception&) { w.u32(2); return 4; }
    w.u32(ok ? 1 : 0);
    if (!ok) return 4;
    w.u32((uint32_t)inst.sigver);
    w.bytes(inst.script.data(), inst.script.size());
    w.bytes(inst.successor_script.data(), inst.successor_script.size());
    w.u32((uint32_t)inst.stack.size());
    for (auto& it : inst.stack) w.bytes(it.data(), it.size());
    w.u64((uint64_t)inst.amounts[txin_index]);
    w.u32(inst.has_preamble ? 1 : 0);
    w.u32(inst.execdata.m_annex_init ? 1 : 0); w.u32(inst.execdata.m_annex_present ? 1 : 0); w.bytes(inst.execdata.m_annex_hash.begin(), 32);
    w.u32(inst.execdata.m_tapleaf_hash_init ? 1 : 0); w.bytes(inst.execdata.m_tapleaf_hash.begin(), 32);
    w.u32(inst.execdata.m_validation_weight_left_init ? 1 : 0); w.u64((uint64_t)inst.execdata.m_validation_weight_left);
    w.u32(inst.tce ? 1 : 0); w.u32(inst.tce ? (uint32_t)inst.tce->m_path_len : 0);
    // hand the configuration to the session
    bool env_ok = inst.setup_environment(flags);
    w.u32(env_ok ? 1 : 0);
    w.u32((uint32_t)inst.env->sigversion); w.u32(inst.env->done ? 1 : 0); w.u32(inst.env->is_p2sh ? 1 : 0);
    w.bytes(inst.env->script.data(), inst.env->script.size()); w.bytes(inst.env->successor_script.data(), inst.env->successor_script.size());
    w.u32(inst.env->tce ? 1 : 0);
    w.u32(inst.env->execdata.m_annex_present ? 1 : 0); w.u64((uint64_t)inst.env->execdata.m_validation_weight_left); w.u32(inst.env->execdata.m_codeseparator_pos);
    w.u32(inst.env->flags);          // the flag word the session actually runs under
    if (inst.tce) { delete inst.tce; inst.tce = nullptr; inst.env->tce = nullptr; }
    return (unsigned)(w.p - out);
}
// input selection: 0 = refused, 1 = accepted (txin_index, txin_vout_index follow), 2 = exception
__attribute__((noinline)) unsigned w_select(const char* txhex, const char* txinhex, int select, unsigned char* out) {
    Wr w{out};
    Instance inst;
    try {
        if (!inst.parse_transaction(txhex, false)) { w.u32(3); return 4; }
        bool ok = inst.parse_input_transaction(txinhex, select);
        w.u32(ok ? 1 : 0); w.u64((uint64_t)inst.txin_index); w.u64((uint64_t)inst.txin_vout_index);
    } catch (const std::exception&) { w.p = out; w.u32(2); }
    return (unsigned)(w.p - out);
}
}
