// Shim: runs btcc's pipeline (Value::parse_args -> Value::serialize) on an argv built from a flat buffer (C07). The real
// btcc.cpp is included with main() renamed; only the final fprintf is replaced by copying the string out.
#define main btcc_main
#include <btcc.cpp>
#undef main
#include <cstring>
extern "C" {
// in: ntok, then for each token: u32 len, bytes (no NUL). out: the hex text btcc would print. returns its length
__attribute__((noinline)) unsigned w_btcc(const unsigned char* in, char* out) {
    uint32_t n; memcpy(&n, in, 4); in += 4;
    std::vector<std::string> toks; std::vector<const char*> argv; argv.push_back("btcc");
    for (uint32_t i = 0; i < n; i++) { uint32_t l; memcpy(&l, in, 4); in += 4; toks.emplace_back((const char*)in, l); in += l; }
    for (auto& t : toks) argv.push_back(t.c_str());
    std::vector<Value> result = Value::parse_args(argv.size(), argv.data(), 1);
    std::string s = Value::serialize(result);
    if (!s.empty()) memcpy(out, s.data(), s.size());
    return s.size();
}
// emission only: Value(bytes) >> script ; Value(int64) >> script ; Value(opcode) >> script
__attribute__((noinline)) unsigned w_emit_data(const unsigned char* d, unsigned len, unsigned char* out) {
    std::vector<unsigned char> v(d, d + len); CScript s; Value(v) >> s;
    if (s.size()) memcpy(out, s.data(), s.size());
    return s.size();
}
__attribute__((noinline)) unsigned w_emit_int(int64_t x, unsigned char* out) {
    CScript s; Value(x) >> s;
    if (s.size()) memcpy(out, s.data(), s.size());
    return s.size();
}
}
