// Shim: signature digest construction (legacy / BIP143 SignatureHash, BIP341/342 SignatureHashSchnorr) on transactions built from bytes (C02). Glue only.
#include <script/interpreter.h>
#include <primitives/transaction.h>
#include <streams.h>
#include <cstring>
namespace {
struct Rd {
    const unsigned char* p;
    uint32_t u32() { uint32_t v; memcpy(&v, p, 4); p += 4; return v; }
    uint64_t u64() { uint64_t v; memcpy(&v, p, 8); p += 8; return v; }
    std::vector<unsigned char> bytes() { uint32_t n = u32(); std::vector<unsigned char> v(p, p + n); p += n; return v; }
};
CTransaction tx_from(const std::vector<unsigned char>& v) {
    CDataStream ss(v, SER_DISK, 0);
    CMutableTransaction mtx;
    UnserializeTransaction(mtx, ss);
    return CTransaction(mtx);
}
}
extern "C" {
// in: tx bytes, scriptCode, nIn, hashtype, amount, sigversion ; out: 32-byte digest
__attribute__((noinline)) unsigned w_sighash(const unsigned char* in, unsigned char* out) {
    Rd r{in};
    CTransaction tx = tx_from(r.bytes());
    std::vector<unsigned char> sc = r.bytes();
    uint32_t nIn = r.u32(); int hashtype = (int)r.u32(); int64_t amount = (int64_t)r.u64(); uint32_t sv = r.u32();
    uint256 h = SignatureHash(CScript(sc.begin(), sc.end()), tx, nIn, hashtype, amount, (SigVersion)sv, nullptr);
    memcpy(out, h.begin(), 32);
    return 1;
}
// in: tx bytes, nspent, (value, spk)*, in_pos, hashtype, sigversion, annex_present, annex_hash(32), leaf(32), codesep ; out: ok + digest
__attribute__((noinline)) unsigned w_sighash_schnorr(const unsigned char* in, unsigned char* out) {
    Rd r{in};
    CTransaction tx = tx_from(r.bytes());
    uint32_t n = r.u32();
    std::vector<CTxOut> spent;
    for (uint32_t i = 0; i < n; i++) { int64_t v = (int64_t)r.u64(); std::vector<unsigned char> spk = r.bytes(); spent.emplace_back(v, CScript(spk.begin(), spk.end())); }
    uint32_t in_pos = r.u32(); uint32_t hashtype = r.u32(); uint32_t sv = r.u32(); uint32_t annex = r.u32();
    std::vector<unsigned char> ah = r.bytes(), leaf = r.bytes(); uint32_t codesep = r.u32();
    PrecomputedTransactionData txdata;
    txdata.Init(tx, std::move(spent), true);
    ScriptExecutionData ed;
    ed.m_annex_init = true; ed.m_annex_present = annex != 0; if (annex) ed.m_annex_hash = uint256(ah);
    ed.m_tapleaf_hash_init = true; ed.m_tapleaf_hash = uint256(leaf);
    ed.m_codeseparator_pos_init = true; ed.m_codeseparator_pos = codesep;
    uint256 h;
    bool ok = SignatureHashSchnorr(h, ed, tx, in_pos, (uint8_t)hashtype, (SigVersion)sv, txdata, MissingDataBehavior::FAIL);
    out[0] = ok ? 1 : 0;
    memcpy(out + 1, h.begin(), 32);
    return 1;
}
// the checker the tools use (TransactionSignatureChecker over a CTransaction, txdata initialised as Instance::setup_environment does):
// in: tx bytes, nspent,(value,spk)*, nIn, amount, sigversion, sig, pubkey, scriptCode, annex_present, annex_hash, leaf, codesep ; out: result, error
__attribute__((noinline)) unsigned w_checker(const unsigned char* in, unsigned char* out) {
    Rd r{in};
    CTransaction tx = tx_from(r.bytes());
    uint32_t n = r.u32();
    std::vector<CTxOut> spent;
    for (uint32_t i = 0; i < n; i++) { int64_t v = (int64_t)r.u64(); std::vector<unsigned char> spk = r.bytes(); spent.emplace_back(v, CScript(spk.begin(), spk.end())); }
    uint32_t nIn = r.u32(); int64_t amount = (int64_t)r.u64(); uint32_t sv = r.u32();
    std::vector<unsigned char> sig = r.bytes(), pub = r.bytes(), sc = r.bytes();
    uint32_t annex = r.u32(); std::vector<unsigned char> ah = r.bytes(), leaf = r.bytes(); uint32_t codesep = r.u32();
    PrecomputedTransactionData txdata;
    txdata.Init(tx, std::move(spent), true);
    TransactionSignatureChecker checker(&tx, nIn, amount, txdata, MissingDataBehavior::FAIL);
    ScriptError err = SCRIPT_ERR_OK;
    bool ok;
    if (sv == (uint32_t)SigVersion::BASE || sv == (uint32_t)SigVersion::WITNESS_V0) {
        ok = checker.CheckECDSASignature(sig, pub, CScript(sc.begin(), sc.end()), (SigVersion)sv);
    } else {
        ScriptExecutionData ed;
        ed.m_annex_init = true; ed.m_annex_present = annex != 0; if (annex) ed.m_annex_hash = uint256(ah);
        ed.m_tapleaf_hash_init = true; ed.m_tapleaf_hash = uint256(leaf);
        ed.m_codeseparator_pos_init = true; ed.m_codeseparator_pos = codesep;
        ok = checker.CheckSchnorrSignature(sig, pub, (SigVersion)sv, ed, &err);
    }
    out[0] = ok ? 1 : 0; uint32_t e = (uint32_t)err; memcpy(out + 1, &e, 4);
    return 1;
}
}
