// Shim: kerl's command-line splitter on an arbitrary line (C15). The C unit kerl/kerl.c is lowered to IR like the C++ units.
extern "C" {
#include <kerl/kerl.h>
}
#include <cstring>
#include <cstddef>
extern "C" {
// returns argc (or -1 on refusal); copies up to 4 arguments' lengths into lens
__attribute__((noinline)) int w_kerl_argcv(const char* line, unsigned* lens) {
    size_t argc = 0; char** argv = nullptr;
    if (kerl_make_argcv(line, &argc, &argv)) return -1;
    for (size_t i = 0; i < argc && i < 4; i++) lens[i] = (unsigned)strlen(argv[i]);
    kerl_free_argcv(argc, argv);
    return (int)argc;
}
}
