// Shim: reaches the file-static flag code of btcdeb.cpp (svf table, svf_get_flag, svf_parse_flags, svf_string) by including the
// real translation unit with its main() renamed. The function bodies are compiled unchanged.
#define main btcdeb_main
#include "btcdeb.cpp"
#undef main
#include <cstring>
namespace {
// svf_get_flag is an internal helper whose parameter list may be refactored: accept (name) and (name, length)
template <class F> auto verif_get(F f, const char* n, int) -> decltype((unsigned)f(n)) { return f(n); }
template <class F> auto verif_get(F f, const char* n, long) -> decltype((unsigned)f(n, strlen(n))) { return f(n, strlen(n)); }
}
extern "C" {
__attribute__((noinline)) unsigned w_svf_parse(unsigned in_flags, const char* mod) { return svf_parse_flags(in_flags, mod); }
// what main() does for -f<mod>
__attribute__((noinline)) unsigned w_modify_flags(const char* mod) { unsigned int flags = STANDARD_SCRIPT_VERIFY_FLAGS; flags = svf_parse_flags(flags, mod); return flags; }
__attribute__((noinline)) unsigned w_svf_get(const char* name) { return verif_get(svf_get_flag, name, 0); }
__attribute__((noinline)) unsigned w_std_flags() { return STANDARD_SCRIPT_VERIFY_FLAGS; }
__attribute__((noinline)) unsigned w_svf_string(unsigned flags, char* out) {
    std::string s = svf_string(flags, ",");
    if (!s.empty()) memcpy(out, s.data(), s.size());
    return s.size();
}
}
