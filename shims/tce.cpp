// Shim: TaprootCommitmentEnv (ctor + Iterate) and its hand-over inside StepScript(InterpreterEnv&) (C05). Glue only.
#include <debugger/interpreter.h>
#include <script/script.h>
#include <cstring>
extern "C" {
// returns final state (1 = Failed, 3 = Done); ks receives m_k after the ctor and after each Iterate(); *nsteps = number of Iterate() calls
__attribute__((noinline)) int w_tce(const unsigned char* control, unsigned clen, const unsigned char* program, const unsigned char* script, unsigned slen, unsigned char* ks, unsigned char* leaf_out, unsigned* nsteps) {
    std::vector<unsigned char> c(control, control + clen), p(program, program + 32);
    CScript s(script, script + slen);
    uint256 leaf;
    TaprootCommitmentEnv tce(c, p, s, &leaf);
    memcpy(leaf_out, leaf.begin(), 32);
    memcpy(ks, tce.m_k.begin(), 32);
    unsigned n = 0;
    while (true) {
        auto st = tce.Iterate();
        n++;
        memcpy(ks + 32 * n, tce.m_k.begin(), 32);
        if (st != TaprootCommitmentEnv::State::Processing) { *nsteps = n; return (int)st; }
        if (n > 200) return -1;
    }
}
// the same through the session: steps until the commitment phase is over; out: per step {ret, curr_op_seq, tce alive}, then leaf hash seen by the session
__attribute__((noinline)) unsigned w_tce_session(const unsigned char* control, unsigned clen, const unsigned char* program, const unsigned char* script, unsigned slen, unsigned maxsteps, unsigned* out, unsigned char* leaf_out) {
    std::vector<unsigned char> c(control, control + clen), p(program, program + 32);
    CScript s(script, script + slen);
    std::vector<valtype> stack;
    BaseSignatureChecker checker;
    ScriptError err;
    InterpreterEnv env(stack, s, 0, checker, SigVersion::TAPSCRIPT, &err);
    uint256 leaf;
    env.tce = new TaprootCommitmentEnv(c, p, s, &leaf);
    unsigned n = 0;
    while (env.tce && n < maxsteps) {
        bool r = StepScript(env);
        out[3 * n] = r ? 1 : 0; out[3 * n + 1] = (unsigned)env.curr_op_seq; out[3 * n + 2] = env.tce ? 1 : 0;
        n++;
        if (!r) break;
    }
    memcpy(leaf_out, env.execdata.m_tapleaf_hash.begin(), 32);
    leaf_out[32] = env.execdata.m_tapleaf_hash_init ? 1 : 0;
    leaf_out[33] = (env.pc == env.script.begin()) ? 1 : 0;
    if (env.tce) { delete env.tce; env.tce = nullptr; }
    return n;
}
// number of description lines the listing shows for the commitment phase (C12)
__attribute__((noinline)) unsigned w_tce_desc_lines(const unsigned char* control, unsigned clen, const unsigned char* program) {
    std::vector<unsigned char> c(control, control + clen), p(program, program + 32);
    CScript s;
    uint256 leaf;
    TaprootCommitmentEnv tce(c, p, s, &leaf);
    return tce.Description().size();
}
#ifdef VERIF_NATIVE
// native replay helper (not part of the code under test): the real tweaked key for (internal key, tweak) through the bundled libsecp256k1 API
}
#include <secp256k1.h>
#include <secp256k1_extrakeys.h>
extern "C" {
int w_real_tweak(const unsigned char* p32, const unsigned char* t32, unsigned char* out33) {
    secp256k1_xonly_pubkey base; secp256k1_pubkey out; secp256k1_xonly_pubkey x; int parity = 0;
    const secp256k1_context* ctx = secp256k1_context_no_precomp;
    if (!secp256k1_xonly_pubkey_parse(ctx, &base, p32)) return 0;
    if (!secp256k1_xonly_pubkey_tweak_add(ctx, &out, &base, t32)) return 0;
    if (!secp256k1_xonly_pubkey_from_pubkey(ctx, &x, &parity, &out)) return 0;
    secp256k1_xonly_pubkey_serialize(ctx, out33 + 1, &x); out33[0] = (unsigned char)parity;
    return 1;
}
#endif
}
