// Shim: builds a debugger session (InterpreterEnv) in an arbitrary pre-state from a flat little-endian request buffer,
// calls one real entry point, and writes the complete observable post-state into a flat reply buffer.
// Only glue lives here; every function under test is the repository's own.
#include <debugger/interpreter.h>
#include <debugger/script.h>
#include <script/script.h>
#include <instance.h>
#include <cstring>
#include <type_traits>

extern "C" {
// oracle for signature checks: uninterpreted function in the engine, Python callback natively
#ifdef VERIF_NATIVE
typedef int (*oracle_fn)(int kind, const unsigned char* a, unsigned alen, const unsigned char* b, unsigned blen, const unsigned char* c, unsigned clen, unsigned sigversion);
static oracle_fn g_oracle = nullptr;
void vf_set_oracle(oracle_fn f) { g_oracle = f; }
__attribute__((constructor)) static void vf_quiet() { btc_logf = btc_logf_dummy; }
int vf_oracle(int kind, const unsigned char* a, unsigned alen, const unsigned char* b, unsigned blen, const unsigned char* c, unsigned clen, unsigned sigversion) {
    return g_oracle ? g_oracle(kind, a, alen, b, blen, c, clen, sigversion) : 0;
}
#else
int vf_oracle(int kind, const unsigned char* a, unsigned alen, const unsigned char* b, unsigned blen, const unsigned char* c, unsigned clen, unsigned sigversion);
#endif
}

namespace {
// the snapshot vectors are implementation detail: detect which ones exist so that a refactoring of the history representation
// does not break the shim (an absent vector is reported with size 0xffffffff and never pre-populated)
#define VERIF_HAS(name) template <class T, class = void> struct has_##name : std::false_type {}; \
    template <class T> struct has_##name<T, std::void_t<decltype(std::declval<T&>().name)>> : std::true_type {};
VERIF_HAS(stack_history) VERIF_HAS(altstack_history) VERIF_HAS(pc_history) VERIF_HAS(nOpCount_history) VERIF_HAS(vfExec_history) VERIF_HAS(pbegincodehash_history) VERIF_HAS(execdata_history)
struct Rd {
    const unsigned char* p;
    uint32_t u32() { uint32_t v; memcpy(&v, p, 4); p += 4; return v; }
    uint64_t u64() { uint64_t v; memcpy(&v, p, 8); p += 8; return v; }
    valtype bytes() { uint32_t n = u32(); valtype v(p, p + n); p += n; return v; }
    std::vector<valtype> items() { uint32_t n = u32(); std::vector<valtype> r; r.reserve(n + 8); for (uint32_t i = 0; i < n; i++) r.push_back(bytes()); return r; }
};
struct Wr {
    unsigned char* p;
    void u32(uint32_t v) { memcpy(p, &v, 4); p += 4; }
    void u64(uint64_t v) { memcpy(p, &v, 8); p += 8; }
    void bytes(const unsigned char* d, size_t n) { if (n) memcpy(p + 4, d, n); u32((uint32_t)n); p += n; }
    void items(const std::vector<valtype>& v) { u32((uint32_t)v.size()); for (auto& x : v) bytes(x.data(), x.size()); }
};

// signature checker whose answers come from the oracle (C02/C11): sig/key/scriptCode -> bool
class OracleChecker : public BaseSignatureChecker {
public:
    bool CheckECDSASignature(const std::vector<unsigned char>& sig, const std::vector<unsigned char>& key, const CScript& code, SigVersion sv) const override {
        return vf_oracle(1, sig.data(), sig.size(), key.data(), key.size(), code.data(), code.size(), (unsigned)sv) != 0;
    }
    bool CheckSchnorrSignature(Span<const unsigned char> sig, Span<const unsigned char> key, SigVersion sv, ScriptExecutionData& ed, ScriptError* serror = nullptr) const override {
        unsigned char ctx[44];
        memcpy(ctx, ed.m_tapleaf_hash.begin(), 32); memcpy(ctx + 32, &ed.m_codeseparator_pos, 4); memcpy(ctx + 36, &ed.m_validation_weight_left, 8);
        int r = vf_oracle(2, sig.data(), sig.size(), key.data(), key.size(), ctx, 36, (unsigned)sv);
        if (r == 0 && serror) *serror = SCRIPT_ERR_SCHNORR_SIG;
        return r != 0;
    }
    bool CheckLockTime(const CScriptNum& n) const override { int64_t v = n.GetInt64(); return vf_oracle(3, (const unsigned char*)&v, 8, nullptr, 0, nullptr, 0, 0) != 0; }
    bool CheckSequence(const CScriptNum& n) const override { int64_t v = n.GetInt64(); return vf_oracle(4, (const unsigned char*)&v, 8, nullptr, 0, nullptr, 0, 0) != 0; }
};

template <class Env> void dump_hist(Wr& w, Env& env) {
    const uint32_t NA = 0xffffffffu;
    uint32_t n0 = NA;
    if constexpr (has_stack_history<Env>::value) { n0 = (uint32_t)env.stack_history.size(); } w.u32(n0);
    if constexpr (has_altstack_history<Env>::value) w.u32((uint32_t)env.altstack_history.size()); else w.u32(NA);
    if constexpr (has_pc_history<Env>::value) w.u32((uint32_t)env.pc_history.size()); else w.u32(NA);
    if constexpr (has_nOpCount_history<Env>::value) w.u32((uint32_t)env.nOpCount_history.size()); else w.u32(NA);
    if constexpr (has_vfExec_history<Env>::value) w.u32((uint32_t)env.vfExec_history.size()); else w.u32(NA);
    if constexpr (has_pbegincodehash_history<Env>::value) w.u32((uint32_t)env.pbegincodehash_history.size()); else w.u32(NA);
    if constexpr (has_execdata_history<Env>::value) w.u32((uint32_t)env.execdata_history.size()); else w.u32(NA);
    if (n0 != NA && n0 != 0) {
        if constexpr (has_stack_history<Env>::value) w.items(env.stack_history.back());
        if constexpr (has_altstack_history<Env>::value) w.items(env.altstack_history.back()); else w.u32(0);
        if constexpr (has_pc_history<Env>::value) w.u32((uint32_t)(env.pc_history.back() - env.script.begin())); else w.u32(NA);
        if constexpr (has_nOpCount_history<Env>::value) w.u32((uint32_t)env.nOpCount_history.back()); else w.u32(NA);
    }
}
template <class Env> void push_hist(Env& env, const std::vector<valtype>& hs, const std::vector<valtype>& ha, uint32_t hpc, uint32_t hn) {
    if constexpr (has_stack_history<Env>::value) env.stack_history.push_back(hs);
    if constexpr (has_altstack_history<Env>::value) env.altstack_history.push_back(ha);
    if constexpr (has_pc_history<Env>::value) env.pc_history.push_back(env.script.begin() + hpc);
    if constexpr (has_nOpCount_history<Env>::value) env.nOpCount_history.push_back((int)hn);
    if constexpr (has_vfExec_history<Env>::value) env.vfExec_history.push_back(ConditionStack());
    if constexpr (has_pbegincodehash_history<Env>::value) env.pbegincodehash_history.push_back(env.script.begin());
    // the older snapshot differs from the pre-state in every execdata field, so that a restore from the wrong index is visible
    if constexpr (has_execdata_history<Env>::value) { auto h = env.execdata; h.m_codeseparator_pos ^= 0x55; h.m_validation_weight_left += 13; env.execdata_history.push_back(h); }
}
void dump(Wr& w, InterpreterEnv& env, ScriptError err) {
    w.u32((uint32_t)err);
    w.items(env.stack);
    w.items(env.altstack);
    uint32_t vs = env.vfExec.size(), ff = vs;
    for (uint32_t i = 0; i < vs; i++) if (!env.vfExec.at(i)) { ff = i; break; }
    w.u32(vs); w.u32(ff);
    w.u32((uint32_t)env.nOpCount);
    w.bytes(env.script.data(), env.script.size());
    w.u32((uint32_t)(env.pc - env.script.begin()));
    w.u32((uint32_t)(env.pbegincodehash - env.script.begin()));
    w.u32((uint32_t)(env.pend - env.script.begin()));
    w.u32(env.opcode_pos);
    w.u32(env.execdata.m_codeseparator_pos);
    w.u64((uint64_t)env.execdata.m_validation_weight_left);
    w.u32((uint32_t)env.curr_op_seq);
    w.u32(env.done ? 1 : 0);
    w.u32(env.is_p2sh ? 1 : 0);
    w.bytes(env.successor_script.data(), env.successor_script.size());
    dump_hist(w, env);
    w.u32(env.tce ? 1 : 0);
}
} // namespace

extern "C" {
// mode: 0 StepScript(env,pc)   1 StepScript(InterpreterEnv&)   2 step;rewind   3 ContinueScript   4 Instance::step   5 Instance::step;Instance::rewind
//       6 Instance::eval(tokens)   7 Instance::rewind only
__attribute__((noinline)) unsigned w_sess(const unsigned char* in, unsigned char* out) {
    Rd r{in}; Wr w{out};
    uint32_t mode = r.u32();
    uint32_t flags = r.u32(), sigversion = r.u32(), allow_disabled = r.u32(), checker_kind = r.u32();
    uint32_t tx_version = r.u32(), tx_locktime = r.u32(), tx_sequence = r.u32();
    std::vector<valtype> stack = r.items();
    valtype scriptbytes = r.bytes();
    CScript script(scriptbytes.begin(), scriptbytes.end());
    BaseSignatureChecker base_checker;
    OracleChecker oracle_checker;
    CMutableTransaction mtx;
    mtx.nVersion = (int32_t)tx_version; mtx.nLockTime = tx_locktime;
    mtx.vin.resize(1); mtx.vin[0].nSequence = tx_sequence;
    MutableTransactionSignatureChecker tx_checker(&mtx, 0, 0, MissingDataBehavior::FAIL);
    const BaseSignatureChecker* checker = checker_kind == 0 ? &base_checker : checker_kind == 1 ? (const BaseSignatureChecker*)&tx_checker : &oracle_checker;
    ScriptError err = SCRIPT_ERR_UNKNOWN_ERROR;
    InterpreterEnv env(stack, script, flags, *checker, (SigVersion)sigversion, &err);
    w.u32(env.operational ? 1 : 0);
    w.u32((uint32_t)err);
    w.u32(env.done ? 1 : 0);
    w.u32(env.is_p2sh ? 1 : 0);
    // ---- arbitrary pre-state
    uint32_t override_state = r.u32();
    if (override_state) {
        env.allow_disabled_opcodes = allow_disabled != 0;
        env.altstack = r.items();
        uint32_t vs = r.u32(), ff = r.u32();
        for (uint32_t i = 0; i < vs; i++) env.vfExec.push_back(i != ff);
        env.nOpCount = (int)r.u32();
        env.pc = env.script.begin() + r.u32();
        env.pbegincodehash = env.script.begin() + r.u32();
        env.opcode_pos = r.u32();
        env.execdata.m_codeseparator_pos = r.u32();
        env.execdata.m_validation_weight_left = (int64_t)r.u64();
        env.execdata.m_validation_weight_left_init = true;
        valtype leaf = r.bytes();
        if (leaf.size() == 32) { env.execdata.m_tapleaf_hash = uint256(leaf); env.execdata.m_tapleaf_hash_init = true; }
        env.curr_op_seq = (int)r.u32();
        env.done = r.u32() != 0;
        uint32_t p2sh = r.u32();
        if (p2sh != 2) env.is_p2sh = p2sh != 0;
        env.p2shstack = r.items();
        valtype succ = r.bytes();
        env.successor_script = CScript(succ.begin(), succ.end());
        uint32_t nhist = r.u32();
        for (uint32_t i = 0; i < nhist; i++) {
            std::vector<valtype> hs = r.items(); std::vector<valtype> ha = r.items(); uint32_t hpc = r.u32(); uint32_t hn = r.u32();
            push_hist(env, hs, ha, hpc, hn);
        }
        // mock signature pairs (C11)
        uint32_t nmock = r.u32();
        for (uint32_t i = 0; i < nmock; i++) { valtype s = r.bytes(); valtype k = r.bytes(); env.pretend_valid_map[s] = k; env.pretend_valid_pubkeys.insert(k); }
    }
    uint32_t ret = 0, threw = 0;
    if (mode == 0) {
        try { ret = StepScript(env, env.pc) ? 1 : 0; } catch (const std::exception&) { threw = 1; }
        w.u32(ret); w.u32(threw); dump(w, env, err);
    } else if (mode == 1) {
        try { ret = StepScript(env) ? 1 : 0; } catch (const std::exception&) { threw = 1; }
        w.u32(ret); w.u32(threw); dump(w, env, err);
    } else if (mode == 2) {
        dump(w, env, err);
        try { ret = StepScript(env) ? 1 : 0; } catch (const std::exception&) { threw = 1; }
        w.u32(ret); w.u32(threw); dump(w, env, err);
        if (ret) {
            uint32_t rr = RewindScript(env) ? 1 : 0;
            w.u32(rr); dump(w, env, err);
        }
    } else if (mode == 3) {
        try { ret = ContinueScript(env) ? 1 : 0; } catch (const std::exception&) { threw = 1; }
        w.u32(ret); w.u32(threw); dump(w, env, err);
    } else if (mode == 4 || mode == 5 || mode == 7) {
        Instance inst;
        inst.env = &env;
        if (mode != 7) { ret = inst.step(1) ? 1 : 0; threw = inst.exception_string != "" ? 1 : 0; w.u32(ret); w.u32(threw); dump(w, env, err); }
        if (mode == 7 || (mode == 5 && ret)) {
            uint32_t rr = inst.rewind() ? 1 : 0;
            w.u32(rr); dump(w, env, err);
        }
        inst.env = nullptr;
    } else if (mode == 6) {
        uint32_t ntok = r.u32();
        std::vector<valtype> toks; std::vector<char*> argv;
        for (uint32_t i = 0; i < ntok; i++) { toks.push_back(r.bytes()); toks.back().push_back(0); }
        for (auto& t : toks) argv.push_back((char*)t.data());
        Instance inst;
        inst.env = &env;
        try { ret = inst.eval(argv.size(), argv.data()) ? 1 : 0; } catch (const std::exception&) { threw = 1; }
        inst.env = nullptr;
        w.u32(ret); w.u32(threw); dump(w, env, err);
    } else if (mode == 8) {
        // exec <tokens> followed by one ordinary step (does exec leave anything behind that a later step trips over?)
        uint32_t ntok = r.u32();
        std::vector<valtype> toks; std::vector<char*> argv;
        for (uint32_t i = 0; i < ntok; i++) { toks.push_back(r.bytes()); toks.back().push_back(0); }
        for (auto& t : toks) argv.push_back((char*)t.data());
        Instance inst;
        inst.env = &env;
        uint32_t r1 = 0, r2 = 0;
        try { r1 = inst.eval(argv.size(), argv.data()) ? 1 : 0; } catch (const std::exception&) { threw = 1; }
        r2 = inst.step(1) ? 1 : 0;
        inst.env = nullptr;
        w.u32(r1 | (r2 << 1)); w.u32(threw); dump(w, env, err);
    }
    return (unsigned)(w.p - out);
}

// CScript::HasValidOps on arbitrary bytes (the refusal domain of Instance::parse_script)
__attribute__((noinline)) unsigned w_has_valid_ops(const unsigned char* sc, unsigned len) {
    CScript s(sc, sc + len);
    return s.HasValidOps() ? 1 : 0;
}
}
