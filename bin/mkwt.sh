#!/bin/sh
# usage: mkwt.sh <dir>  - scratch worktree of /repo at HEAD with the build configuration (ignored files) copied in, so that `make` works there
set -e
d=$1
git -C /repo worktree add --detach "$d" HEAD >/dev/null 2>&1
rsync -a --ignore-existing --exclude .git /repo/ "$d"/
# object files and binaries were copied too; make rebuilds whatever the agent edits
echo "$d ready"
