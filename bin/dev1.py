#!/usr/bin/env python3-vt
# developer helper: run selected obligations of one harness in-process (no pool), reusing an existing work dir if present
import sys, os, time, importlib, glob
V = os.path.dirname(os.path.dirname(os.path.abspath(__file__)))
sys.path.insert(0, V + '/engine'); sys.path.insert(0, V + '/harness')
import build, core, irsym
pid = sys.argv[1]; pat = sys.argv[2] if len(sys.argv) > 2 else ''; tier = sys.argv[3] if len(sys.argv) > 3 else 'quick'
H = importlib.import_module(pid)
wd = os.path.join(V, '.work', 'dev_' + pid)
if not os.path.exists(wd + '/native.so') or os.environ.get('REBUILD'):
    wd = build.workdir('dev_' + pid)
    ll, sha = build.build_ir(wd, H.TUS, H.SHIMS); so = build.build_native(wd, H.SHIMS, getattr(H, 'NATIVE_TUS', None))
else:
    ll = [wd + '/shim_%s.ll' % s for s in H.SHIMS] + [wd + '/%s.ll' % t for t in H.TUS]; so = wd + '/native.so'
t0 = time.time()
core._winit(pid, ll, so, tier, 0)
print('init %.1fs' % (time.time() - t0))
obs = [o for o in H.obligations(tier, 0) if pat in o['name']]
print(len(obs), 'obligations')
if os.environ.get('VALIDATE'):
    import ctypes
    print('validated', H.validate(core._W['E'], ctypes.CDLL(so)))
for ob in obs[:int(os.environ.get('N', '20'))]:
    r = core._wrun(ob)
    print('[%s] %s paths=%d ref=%d q=%d sat=%d %.2fs steps=%d %s %s' % (r['status'], r['name'], r['paths'], r['ref_cases'], r['queries'], r['sat'], r['wall'], r['steps'], r['classes'], r['note'][:500]))
    if r['status'] == 'violated' and hasattr(H, 'replay'):
        print('   cex', r['cex']); print('   key', r['key'])
        print('   replay', core.native_replay(pid, so, ob, r['cex']))
