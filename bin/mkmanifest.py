#!/usr/bin/env python3
"""regenerate MANIFEST.json from the harness modules present (claimed) and the NOT_APPLICABLE table below"""
import json, os, re, sys
V = os.path.dirname(os.path.dirname(os.path.abspath(__file__)))
props = [json.loads(l) for l in open(V + '/properties.jsonl')]
NA = json.load(open(V + '/bin/not_applicable.json'))
checks = []; na = []
for p in props:
    pid = p['id']
    hp = V + '/harness/%s.py' % pid
    if os.path.exists(hp) and pid not in NA:
        src = open(hp).read()
        title = re.search(r"""^TITLE = (['"])(.*)\1$""", src, re.M).group(2)
        tech = re.search(r"^TECHNIQUE = '(.*)'$", src, re.M)
        note = re.search(r"^LEVEL_NOTE = '(.*)'$", src, re.M)
        checks.append(dict(property_id=pid, quick_cmd='bin/check %s quick' % pid, thorough_cmd='bin/check %s thorough' % pid,
                           evidence_file='/verif/evidence/%s.json' % pid, replay_cmd_template='bin/check %s quick --replay {path}' % pid, engine='irsym',
                           level_claimed=dict(category='model_checking', design_ref='DESIGN.md section 3 (%s)' % pid,
                                              text='bounded symbolic model checking of the compiled code: ' + title + '. The solver decides every obligation over all contents of each listed shape; nothing outside the shapes is claimed.'),
                           level_note=(note.group(1) if note else 'trusted: clang-14 -O1 lowering, the irsym interpreter (validated on every run against the native g++ build on concrete inputs), z3; hash compression functions and libsecp256k1 are uninterpreted; allocation never fails; formatting/logging discarded'),
                           technique=(tech.group(1) if tech else 'symbolic execution of the LLVM IR of the real functions (own executor) + z3 SMT queries against an independent reference model; counterexamples replayed on the native build')))
    else:
        na.append(dict(property_id=pid, reason=NA.get(pid, 'check not built yet in this round (planned, see DESIGN.md section 3)')))
m = dict(version=1, setup_cmd='true',
         hooks=dict(guard='BTCDEB_VERIF', enable='engine/build.py passes -DBTCDEB_VERIF to every clang++/g++ invocation; no hook is currently present in /repo', baseline_off_cmd='cd /repo && make -j16 test-btcdeb && ./test-btcdeb', source_commits=[], add_only=True),
         engines=[dict(name='irsym', path='engine/irsym.py', serves_properties=[c['property_id'] for c in checks], kind_free_text='path-based symbolic executor over clang-14 LLVM IR with z3 (python3-vt); reference models in harness/ref*.py'),
                  dict(name='ir2c+cbmc', path='engine/ir2c.py', serves_properties=[], kind_free_text='IR->C lowering for CBMC on leaf kernels (second engine)')],
         checks=checks, not_applicable=na,
         notes='Every check regenerates IR and a native replay library from /repo working tree on each run (engine/build.py). Exit codes: 0 held, 1 VIOLATION, 2 build/encoder problem, 3 inconclusive obligation.')
json.dump(m, open(V + '/MANIFEST.json', 'w'), indent=1)
print('claimed:', [c['property_id'] for c in checks]); print('not applicable:', [n['property_id'] for n in na])
