#include <string.h>
#include <stdlib.h>
#include <stdio.h>
#include <ctype.h>
#include <errno.h>
unsigned lt_run(const char* in, unsigned char* out) {
    char buf[64]; char* e; unsigned n = 0;
    long v = strtol(in, &e, 10); memcpy(out + n, &v, 8); n += 8; out[n++] = (unsigned char)(e - in);
    unsigned long u = strtoul(in, NULL, 10); memcpy(out + n, &u, 8); n += 8;
    strcpy(buf, "ab"); strcat(buf, in); strncat(buf, "xyz", 2); memcpy(out + n, buf, strlen(buf) + 1); n += strlen(buf) + 1;
    memset(buf, 0x55, 16); strncpy(buf, in, 6); memcpy(out + n, buf, 8); n += 8;
    n += sprintf((char*)out + n, "%s|%d|%lu", in, (int)v, (unsigned long)strlen(in)) + 1;
    for (const char* p = in; *p; ++p) { out[n++] = (isdigit((unsigned char)*p) ? 1 : 0) | (isxdigit((unsigned char)*p) ? 2 : 0) | (isalpha((unsigned char)*p) ? 4 : 0) | (isspace((unsigned char)*p) ? 8 : 0) | (isupper((unsigned char)*p) ? 16 : 0) | (ispunct((unsigned char)*p) ? 32 : 0); out[n++] = tolower((unsigned char)*p); out[n++] = toupper((unsigned char)*p); }
    const char* r = strrchr(in, 'a'); out[n++] = r ? (unsigned char)(r - in) : 255;
    const char* s = strstr(in, "12"); out[n++] = s ? (unsigned char)(s - in) : 255;
    out[n++] = (unsigned char)strspn(in, " -+0123456789"); out[n++] = (unsigned char)strcspn(in, "aZ");
    char* c = calloc(3, 2); out[n++] = c[5]; free(c);
    errno = 0; out[n++] = errno;
    return n;
}
