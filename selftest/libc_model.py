import sys, subprocess, ctypes
import os; os.makedirs("/tmp/verif_lt", exist_ok=True)
sys.path.insert(0,'/verif/engine'); sys.path.insert(0,'/verif/harness')
import irsym, stubs, procenv, hlib
subprocess.check_call('clang-14 -O1 -S -emit-llvm -o /tmp/verif_lt/lt.ll /verif/selftest/libc_model.c && gcc -O1 -shared -fPIC -o /tmp/verif_lt/lt.so /verif/selftest/libc_model.c', shell=True)
E = irsym.Engine(['/tmp/verif_lt/lt.ll']); stubs.install_all(E, hashes=False, secp=False); procenv.install(E); E.run_static_inits()
lib = ctypes.CDLL('/tmp/verif_lt/lt.so'); bad = 0
for s in [b'', b'0', b'  -42abc', b'+7', b'12a12', b'aZ!~ \t9', b'99999999999999999999', b'-9223372036854775808', b'abcdefghij', b'xyz']:
    spec = [('in', list(s) + [0]), ('out', 400)]
    ret, outs = hlib.spec_native(lib, 'lt_run', spec); nat = bytes(outs[0](ret))
    runs = hlib.spec_engine(E, 'lt_run', spec)
    assert len(runs) == 1, runs
    f, r, o = runs[0]
    if r is None: print('ENGINE FAIL', s, f.result); bad += 1; continue
    eng = bytes(o[0](r))
    if eng != nat or r != ret: print('MISMATCH', s, r, ret, eng, nat); bad += 1
print('libc self-test:', 'ok' if not bad else '%d mismatches' % bad)
