"""C01 - stepping a script follows Bitcoin's script rules at every operation (one-step differential, all opcodes)."""
import z3, itertools
import stubs, sesslib, refscript as R, refexec
from irsym import is_sym, bv
from core import mkres, EncoderMismatch

ID = 'C01'
TITLE = 'one-step differential of the real StepScript against a consensus-rule reference, all 256 opcode bytes x 3 script versions'
TUS = ['interp', 'script', 'dbginterp', 'dbgscript', 'instance', 'value', 'strenc', 'pubkey', 'hash', 'sha256', 'ripemd160', 'sha1', 'uint256', 'tx']
SHIMS = ['sess']
import build as _b
NATIVE_TUS = _b.ALL_NATIVE + ['instance']
FUNCTIONS = ['StepScript(ScriptExecutionEnvironment&, CScript::const_iterator&, CScript*) [script/interpreter.cpp]', 'CScript::GetOp/GetScriptOp', 'CheckMinimalPush',
             'CastToBool', 'CScriptNum ctor/serialize/getint', 'ConditionStack', 'StepScript(InterpreterEnv&) [debugger/interpreter.cpp]', 'ContinueScript', 'Instance::step',
             'CScript::HasValidOps', 'GenericTransactionSignatureChecker::CheckLockTime/CheckSequence', 'CSHA256/CRIPEMD160/CSHA1/CHash160/CHash256 Write+Finalize (compression = UF)']
ASSUMPTIONS = ['allocation never fails', 'logging/formatting output discarded (btc_logf*, printf, HexStr, tinyformat)', 'hash compression functions are uninterpreted functions when their input is symbolic',
               'pre-state satisfies the session representation invariant (pc at an opcode boundary, 0<=nOpCount<=201, vfExec first-false < size)',
               'tapscript OP_SUCCESSx opcodes and signature opcodes (C02) and re-enabled opcodes (C17) are outside this reference',
               'verdicts are for the clang-14 -O1 IR of the working tree']
OUTSIDE = ['operands longer than 5 bytes (except the 520/521 push boundary)', 'stacks deeper than the arity+1 of each opcode (1000-item boundary is C10)', 'scripts longer than one operation at the low level (multi-op glue: ContinueScript obligations)']
BOUNDS = {'quick': 'opcode: all 256; sigversion: BASE, WITNESS_V0, TAPSCRIPT; stack depth arity-1..arity+1; operand lengths {0,1,4,5} (uniform + mixed); vfExec shapes up to size 3; flags: all 2^32 (symbolic); nOpCount: 0..201 (symbolic); push payload symbolic',
          'thorough': 'as quick with operand lengths {0..5}^arity, alt-stack depth 0..2, PUSHDATA boundary lengths 0/1/75/76/255/256/520/521'}

def setup(E):
    stubs.install_all(E)
    E.stubs['_ZN15ECCVerifyHandleC1Ev'] = lambda E, st, fr, I, A: None
    E.stubs['_ZN15ECCVerifyHandleC2Ev'] = lambda E, st, fr, I, A: None
    E.stubs['_ZN15ECCVerifyHandleD1Ev'] = lambda E, st, fr, I, A: None
    E.stubs['_ZN15ECCVerifyHandleD2Ev'] = lambda E, st, fr, I, A: None

# ---- opcode arity (from the script rules): number of main-stack operands
ARITY = {}
for n, k in dict(OP_VERIFY=1, OP_TOALTSTACK=1, OP_2DROP=2, OP_2DUP=2, OP_3DUP=3, OP_2OVER=4, OP_2ROT=6, OP_2SWAP=4, OP_IFDUP=1, OP_DROP=1, OP_DUP=1, OP_NIP=2, OP_OVER=2,
                 OP_PICK=2, OP_ROLL=2, OP_ROT=3, OP_SWAP=2, OP_TUCK=2, OP_SIZE=1, OP_EQUAL=2, OP_EQUALVERIFY=2, OP_1ADD=1, OP_1SUB=1, OP_NEGATE=1, OP_ABS=1, OP_NOT=1,
                 OP_0NOTEQUAL=1, OP_ADD=2, OP_SUB=2, OP_BOOLAND=2, OP_BOOLOR=2, OP_NUMEQUAL=2, OP_NUMEQUALVERIFY=2, OP_NUMNOTEQUAL=2, OP_LESSTHAN=2, OP_GREATERTHAN=2,
                 OP_LESSTHANOREQUAL=2, OP_GREATERTHANOREQUAL=2, OP_MIN=2, OP_MAX=2, OP_WITHIN=3, OP_RIPEMD160=1, OP_SHA1=1, OP_SHA256=1, OP_HASH160=1, OP_HASH256=1,
                 OP_IF=1, OP_NOTIF=1, OP_CHECKLOCKTIMEVERIFY=1, OP_CHECKSEQUENCEVERIFY=1).items(): ARITY[R.OP[n]] = k
NUMERIC = set(range(0x8b, 0xa6)) | {R.OP['OP_PICK'], R.OP['OP_ROLL']}
LOCK = {R.OP['OP_CHECKLOCKTIMEVERIFY'], R.OP['OP_CHECKSEQUENCEVERIFY']}
HASH = set(range(0xa6, 0xab))
CONTROL = set(range(0x63, 0x69))
VF_ALL = [(0, None), (1, None), (1, 0), (2, None), (2, 0), (2, 1), (3, 1)]

def len_combos(o, k, tier):
    if k == 0: return [()]
    if o in HASH: return [(0,), (1,), (55,), (56,), (64,)] if tier == 'quick' else [(n,) for n in (0, 1, 31, 32, 55, 56, 63, 64, 65, 119, 120)]
    if o in LOCK: return [(0,), (1,), (4,), (5,), (6,)]
    if o in NUMERIC:
        L = (0, 1, 4, 5) if tier == 'quick' else (0, 1, 2, 3, 4, 5)
        if tier == 'quick':
            c = [tuple([x] * k) for x in L]
            if k >= 2: c += [tuple([1] * (k - 1) + [4]), tuple([4] + [1] * (k - 1)), tuple([5] + [1] * (k - 1)), tuple([2] * (k - 1) + [3])]
            return c
        return list(itertools.product(L, repeat=k)) if k <= 2 else [tuple([x] * k) for x in L] + list(itertools.product((0, 1, 4), repeat=k))
    L = (0, 1, 2) if tier == 'quick' else (0, 1, 2, 5)
    if k == 1: return [(x,) for x in L]
    if k == 2: return list(itertools.product(L, repeat=2)) if tier != 'quick' else [(0, 0), (1, 1), (1, 2), (2, 1), (2, 2)]
    return [tuple([1] * k), tuple([(i % 3) for i in range(k)])]

def obligations(tier, seed):
    obs = []
    def add(**kw):
        if kw['op'] < 0x4c: kw.setdefault('plen', kw['op'])
        kw.setdefault('alt', 0); kw.setdefault('vf', (0, None)); kw.setdefault('extra', 0); kw.setdefault('prefix', 0); kw.setdefault('checker', 0); kw.setdefault('mode', 0)
        kw['name'] = 'op%02x/sv%d/st%s/alt%d/vf%s/x%d/p%d/c%d/m%d/pl%s' % (kw['op'], kw['sv'], '.'.join(map(str, kw['lens'])), kw['alt'], '%d-%s' % kw['vf'], kw['extra'], kw['prefix'], kw['checker'], kw['mode'], kw.get('plen', ''))
        obs.append(kw)
    for sv in (R.BASE, R.WITNESS_V0, R.TAPSCRIPT):
        for o in range(256):
            if o in R.SIGOPS: continue                                   # C02
            if sv == R.TAPSCRIPT and R.is_op_success(o): continue        # outside the compared domain (stated)
            if o <= 0x4e:
                # pushes: payload length by opcode (direct) or by concrete length bytes (PUSHDATA)
                if o < 0x4c: plens = [o]
                elif o == 0x4c: plens = [0, 1, 75, 76, 255] if tier != 'quick' else [0, 1, 76, 255]
                elif o == 0x4d: plens = [0, 1, 255, 256, 520, 521] if tier != 'quick' else [1, 256, 520, 521]
                else: plens = [0, 1, 256, 520, 521] if tier != 'quick' else [1, 520, 521]
                if tier == 'quick' and 0x06 <= o <= 0x4a and o not in (0x20, 0x21, 0x40, 0x41): plens = plens[:1] if sv == R.BASE else []
                for pl in plens:
                    add(op=o, sv=sv, lens=(), plen=pl)
                    add(op=o, sv=sv, lens=(1,), plen=pl, vf=(1, 0))                       # unexecuted branch
                    if sv == R.BASE or tier != 'quick':
                        add(op=o, sv=sv, lens=(), plen=pl, extra=-1)                      # truncated payload
                        add(op=o, sv=sv, lens=(2,), plen=pl, extra=1, prefix=1, alt=1)    # trailing byte, prefix op, alt
                continue
            k = ARITY.get(o, 0)
            for d in sorted({max(0, k - 1), k, k + 1}):
                for lens in len_combos(o, k, tier):
                    lens_full = tuple([1] * (d - k) + list(lens)) if d >= k else tuple(lens[:d])
                    if d < k and lens != len_combos(o, k, tier)[0]: continue
                    if d > k and tier == 'quick' and lens != len_combos(o, k, tier)[min(1, len(len_combos(o, k, tier)) - 1)]: continue
                    cks = (0, 1) if o in LOCK else (0,)
                    for ck in cks:
                        add(op=o, sv=sv, lens=lens_full, checker=ck)
            vfs = VF_ALL if o in CONTROL else [(1, 0), (2, None)]
            lens0 = tuple([1] * k)
            for vf in vfs:
                add(op=o, sv=sv, lens=lens0, vf=vf, alt=1)
            if o in (R.OP['OP_TOALTSTACK'], R.OP['OP_FROMALTSTACK']):
                for a in (0, 1, 2): add(op=o, sv=sv, lens=(1, 2), alt=a)
            if o in (R.OP['OP_PICK'], R.OP['OP_ROLL']):
                for d in (3, 4): add(op=o, sv=sv, lens=tuple([1] * d + [1]), alt=0)
                add(op=o, sv=sv, lens=(2, 0, 1, 4))
            add(op=o, sv=sv, lens=lens0, prefix=1, extra=1)
        # debugger-level step (history, curr_op_seq) and Instance::step for a few representative opcodes
        for o in (0x51, 0x76, 0x93, 0x63, 0x68, 0x6a, 0x75, 0x00):
            for mode in (1, 4):
                add(op=o, sv=sv, lens=(1, 4), mode=mode, alt=1)
                add(op=o, sv=sv, lens=(), mode=mode, vf=(1, None))
    seen = set(); out = []
    for ob in obs:
        if ob['name'] in seen: continue
        seen.add(ob['name']); out.append(ob)
    return out

def build(ob, sym=True, values=None):
    """returns (request bytes, RS reference pre-state, inputs dict, assumptions)"""
    V = values or {}
    def var(name, bits):
        if sym: return z3.BitVec(name, bits)
        return V.get(name, 0)
    def item(name, n): return [var('%s_%d' % (name, i), 8) for i in range(n)]
    o = ob['op']; inputs = {}
    stack = [item('s%d' % i, L) for i, L in enumerate(ob['lens'])]
    for k, bs in (ob.get('cvals') or {}).items(): stack[int(k)] = list(bs)
    stack = [[] for _ in range(ob.get('pad', 0))] + stack
    alt = [[] for _ in range(ob.get('altpad', 0))] + [item('a%d' % i, 1) for i in range(ob['alt'])]
    script = []
    if ob['prefix']: script.append(0x61)
    pc = len(script)
    script.append(o)
    if o <= 0x4e:
        pl = ob['plen']
        if o == 0x4c: script += [pl]
        elif o == 0x4d: script += list(pl.to_bytes(2, 'little'))
        elif o == 0x4e: script += list(pl.to_bytes(4, 'little'))
        n = pl + (ob['extra'] if ob['extra'] < 0 else 0)
        script += item('pl', max(n, 0))
        if ob['extra'] > 0: script += item('tr', 1)
    elif ob['extra'] > 0: script += item('tr', 1)
    flags = var('flags', 32); nop = var('nop', 32)
    txv, txl, txs = var('txver', 32), var('txlock', 32), var('txseq', 32)
    assume = [z3.ULE(nop, 201)] if sym else []
    pre = dict(alt=alt, vf=ob['vf'], nop=nop, pc=pc, pbch=0, opcode_pos=0, codesep=0xffffffff, curr_op_seq=3,
               hist=[([[7]], [], 0, 5)] if ob['mode'] in (1, 4) else [])
    req = sesslib.sess_request(ob['mode'], flags, ob['sv'], stack, script, ob.get('allow', 0), ob['checker'], (txv, txl, txs), pre)
    S = R.RS(stack=stack, alt=alt, vf_size=ob['vf'][0], vf_ff=ob['vf'][1], nop=nop, flags=flags, sigversion=ob['sv'], script=script, pc=pc, allow_disabled=bool(ob.get('allow', 0)),
             checker='tx' if ob['checker'] == 1 else 'base', tx_version=txv, tx_locktime=txl, tx_sequence=txs)
    inputs = dict(flags=flags, nop=nop, txver=txv, txlock=txl, txseq=txs, stack=stack, alt=alt, script=script, _pad=ob.get('pad', 0), _altpad=ob.get('altpad', 0))
    return req, S, inputs, assume

def impl_outcome_from(rep, mode):
    p = rep['post']
    if mode in (1, 4):
        # debugger level: a failed or throwing step leaves the histories as they were; a successful one records the pre-state
        if (not is_sym(rep['threw']) and rep['threw']): return dict(ok=0, err=R.EXC)
        if not rep['ret']: return dict(ok=0, err=p['err'])
        return dict(ok=1, stack=p['stack'], alt=p['alt'], vf=p['vf'], nop=p['nop'], pc=p['pc'], pbch=p['pbch'], codesep=p['codesep'], hist=p['hist'], seq=p['curr_op_seq'],
                    htop=p.get('hist_top'), script=p['script'], pend=p['pend'])
    if rep['threw']: return dict(ok=0, err=R.EXC)
    if not rep['ret']: return dict(ok=0, err=p['err'])
    return dict(ok=1, stack=p['stack'], alt=p['alt'], vf=p['vf'], nop=p['nop'], pc=p['pc'], pbch=p['pbch'], codesep=p['codesep'], script=p['script'], pend=p['pend'])

def ref_outcome(ctx, ob, S):
    r = R.ref_step(ctx, S)
    mode = ob['mode']
    if r['ok']: r['script'] = list(S.script); r['pend'] = len(S.script)
    if mode in (1, 4):
        if r['ok']:
            r['hist'] = 2; r['seq'] = 4
            r['htop'] = dict(stack=S.stack, alt=S.alt, pc=S.pc, nop=S.nop)
    return r

def key_fn(ob):
    def k(io, ro):
        what = 'crash:' + str(io[1]) if isinstance(io, (tuple, list)) else ('outcome' if io.get('ok') != ro.get('ok') else ('error-code' if not io.get('ok') else 'state'))
        return '%s:%s:m%d:%s' % (ob.get('pid', 'C01'), R.NAME.get(ob['op'], 'op%02x' % ob['op']), ob['mode'], what)
    return k

def run(E, ob):
    req, S, inputs, assume = build(ob)
    out, fin = sesslib.engine_call(E, req, assume=assume)
    def io(f): return impl_outcome_from(sesslib.engine_reply(E, f, out, ob['mode']), ob['mode'])
    res = sesslib.diff_paths(E, ob['name'], fin, io, lambda ctx: ref_outcome(ctx, ob, S), assume, inputs, key_fn(ob))
    return res

def concrete_values(cex):
    V = {}
    np_ = len(cex['stack']) - len([x for x in cex.get('_lens', [])]) if '_lens' in cex else 0
    for i, it in enumerate(cex['stack'][cex.get('_pad', 0):]):
        for j, b in enumerate(it): V['s%d_%d' % (i, j)] = b
    for i, it in enumerate(cex['alt'][cex.get('_altpad', 0):]):
        for j, b in enumerate(it): V['a%d_%d' % (i, j)] = b
    V.update(flags=cex['flags'], nop=cex['nop'], txver=cex['txver'], txlock=cex['txlock'], txseq=cex['txseq'])
    return V

def run_native_and_ref(lib, ob, cex):
    """execute the real build and the reference on one concrete input; returns (impl outcome, ref outcome)"""
    V = concrete_values(cex)
    req, S, inputs, _ = build(ob, sym=False, values=V)
    # payload / trailing bytes come from the counterexample's script
    sc = cex['script']
    req, S, inputs, _ = build_concrete(ob, V, sc)
    rep = sesslib.native_call(lib, req, ob['mode'])
    io = impl_outcome_from(rep, ob['mode'])
    cases, _ = refexec.explore(lambda ctx: ref_outcome(ctx, ob, S))
    assert len(cases) == 1, 'reference is not deterministic on a concrete input'
    ro = sesslib.concretize(z3.Solver().model() if False else _empty_model(), cases[0][1])
    return io, ro

def _empty_model():
    s = z3.Solver(); s.check(); return s.model()

def build_concrete(ob, V, script_bytes):
    V = dict(V)
    # map script payload bytes back onto the variable names used by build()
    o = ob['op']; pos = (1 if ob['prefix'] else 0) + 1
    if o <= 0x4e:
        pos += {0x4c: 1, 0x4d: 2, 0x4e: 4}.get(o, 0)
        n = max(ob['plen'] + (ob['extra'] if ob['extra'] < 0 else 0), 0)
        for i in range(n): V['pl_%d' % i] = script_bytes[pos + i]
        pos += n
    if ob['extra'] > 0: V['tr_0'] = script_bytes[pos]
    return build(ob, sym=False, values=V)

def replay(lib, ob, cex):
    io, ro = run_native_and_ref(lib, ob, cex)
    d = refexec.differs(io, ro)
    return (d is not False), 'native: %s | reference: %s' % (sesslib.short(io), sesslib.short(ro))

def validate(E, lib):
    """encoder validation: the engine, run concretely, must agree with the native build on concrete inputs"""
    n = 0
    import random
    rnd = random.Random(1)
    samples = []
    for o, lens in [(0x93, (1, 1)), (0x93, (4, 4)), (0x94, (2, 1)), (0x76, (3,)), (0x63, (1,)), (0x64, (0,)), (0x67, ()), (0x68, ()), (0xa5, (1, 1, 1)), (0x79, (1, 1, 1)), (0x7a, (1, 1, 1)),
                    (0xa9, (5,)), (0xa8, (3,)), (0xa6, (2,)), (0xa7, (1,)), (0xaa, (0,)), (0x02, ()), (0x4c, ()), (0x51, ()), (0x60, ()), (0x4f, ()), (0xb1, (2,)), (0xb2, (1,)), (0x82, (3,)),
                    (0x7e, (1, 1)), (0x50, ()), (0xba, ()), (0x8b, (4,)), (0x9a, (1, 0))]:
        for sv in (0, 1, 3):
            for mode in (0, 1, 4):
                ob = dict(op=o, sv=sv, lens=lens, alt=1, vf=(0, None) if o not in (0x67, 0x68) else (1, None), extra=0, prefix=0, checker=1 if o in LOCK else 0, mode=mode, plen=1 if o == 0x4c else (o if o < 0x4c else 0), name='v')
                V = {}
                for i, L in enumerate(lens):
                    for j in range(L): V['s%d_%d' % (i, j)] = rnd.choice([0, 1, 2, 0x7f, 0x80, 0x81, 0xff, rnd.randrange(256)])
                V['a0_0'] = 9; V['pl_0'] = rnd.randrange(256); V['pl_1'] = 5
                V['flags'] = rnd.choice([0, 0xffffffff, rnd.getrandbits(21)]); V['nop'] = rnd.choice([0, 5, 200, 201]); V['txver'] = 2; V['txlock'] = rnd.choice([0, 100, 600000000]); V['txseq'] = rnd.choice([0, 5, 0xffffffff])
                req, S, inputs, _ = build(ob, sym=False, values=V)
                nat = impl_outcome_from(sesslib.native_call(lib, req, mode), mode)
                out, fin = sesslib.engine_call(E, req)
                if len(fin) != 1: raise EncoderMismatch('concrete run forked or died: %s %r' % (ob, [f.result for f in fin]))
                if fin[0].result[0] != 'ret': raise EncoderMismatch('engine: %r on %s (native: %s)' % (fin[0].result, ob, nat))
                eng = impl_outcome_from(sesslib.engine_reply(E, fin[0], out, mode), mode)
                if refexec.differs(eng, nat) is not False:
                    raise EncoderMismatch('engine %s != native %s on %s %s' % (sesslib.short(eng), sesslib.short(nat), ob, V))
                n += 1
    return n
