"""Running btcdeb's real main() in the engine with a scripted process environment (argv, tty-ness, stdin), and the same run
natively (real binary rebuilt from the working tree under a pty).  Shared by C08 / C12 / C15."""
import os, z3, subprocess
import stubs, procenv, build
from irsym import is_sym

TUS = ['functions', 'instance', 'value', 'interp', 'script', 'dbginterp', 'dbgscript', 'strenc', 'pubkey', 'hash', 'sha256', 'ripemd160', 'sha1', 'uint256', 'tx', 'script_error', 'base58', 'bech32', 'arith', 'merkle']
SHIMS = ['maindeb']

def setup(E, real_hex=True):
    stubs.install_all(E)
    for n in ('_ZN15ECCVerifyHandleC1Ev', '_ZN15ECCVerifyHandleC2Ev', '_ZN15ECCVerifyHandleD1Ev', '_ZN15ECCVerifyHandleD2Ev'): E.stubs[n] = lambda E, st, fr, I, A: None
    procenv.install(E)
    if real_hex: E.stubs.pop('_Z6HexStrB5cxx114SpanIKhE', None)

def run_main(E, args, tty=(1, 0, 1), stdin=None, assume=(), fn='@w_btcdeb_main', aux=None):
    """args: list of byte lists (ints / 8-bit terms). returns final states; f.result is ('ret', code) | ('exit', code) | ('uncaught', ..) | ('violation', ..)"""
    st = E.new_state(); st.pc = list(assume); st.model = None
    st.aux['tty'] = tty
    if aux: st.aux.update(aux)
    if stdin is not None: st.aux['stdin'] = list(stdin)
    argc, av = procenv.make_argv(E, st, args)
    E.call(st, fn, [argc, av])
    return E.run(st)

def outcome(f):
    r = f.result
    if r is None: return ('crash', 'none', '')
    if r[0] == 'ret': code = r[1]
    elif r[0] == 'exit': code = r[1]
    elif r[0] == 'uncaught': return ('crash', 'uncaught-exception', 'a C++ exception leaves main(): std::terminate / SIGABRT')
    else: return ('crash', r[1], r[2] if len(r) > 2 else '')
    return dict(code=code if is_sym(code) else code & 0xff, stdout=list(f.aux.get('out1', [])))

_BIN = {}
def build_btcdeb(wd):
    """the real btcdeb binary from the working tree's sources (g++ -O1), for native replays"""
    if wd in _BIN: return _BIN[wd]
    import concurrent.futures as cf
    srcs = ['btcdeb.cpp', 'functions.cpp', 'instance.cpp'] + [build.TUS[t] for t in build.ALL_NATIVE] + ['kerl/kerl.c']
    objs = []
    def one(s):
        o = os.path.join(wd, 'tool_' + s.replace('/', '_') + '.o')
        if s.endswith('.c'): cmd = ['gcc', '-std=gnu99', '-O1', '-w', '-DHAVE_CONFIG_H', '-I' + build.REPO, '-I' + build.REPO + '/config', '-I' + build.REPO + '/kerl', '-c', os.path.join(build.REPO, s), '-o', o]
        else: cmd = ['g++', '-std=c++17', '-O1', '-w', '-I' + build.REPO, '-I' + build.REPO + '/secp256k1/include', '-DHAVE_CONFIG_H', '-c', os.path.join(build.REPO, s), '-o', o]
        r = subprocess.run(cmd, stdout=subprocess.PIPE, stderr=subprocess.STDOUT, text=True)
        if r.returncode: raise build.BuildError(r.stdout[-2000:])
        return o
    with cf.ThreadPoolExecutor(16) as ex: objs = list(ex.map(one, srcs))
    secp = os.path.join(wd, 'secp_pic.a')
    if not os.path.exists(secp): secp = build.secp_lib(wd)
    out = os.path.join(wd, 'btcdeb')
    r = subprocess.run(['g++', '-o', out] + objs + [secp, '-lreadline'], stdout=subprocess.PIPE, stderr=subprocess.STDOUT, text=True)
    if r.returncode: raise build.BuildError(r.stdout[-2000:])
    _BIN[wd] = out
    return out
