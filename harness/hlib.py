"""generic helpers for harnesses that call flat extern "C" shim functions"""
import z3, ctypes, time
from irsym import is_sym, bv, simp, Unsupported
import refexec
from core import mkres
from sesslib import concretize, short, outcome_class

def put(E, st, data, pad=0):
    a = E.alloc(st, len(data) + pad + 1, 'heap')
    for i, b in enumerate(data): st.mem[a + i] = b
    return a
def buf(E, st, n, fill=None):
    a = E.alloc(st, max(n, 1), 'heap')
    if fill is not None:
        for i in range(n): st.mem[a + i] = fill
    return a
def rdbytes(E, f, a, n): return [E.load(f, a + i, 1) for i in range(n)]
def uniq(E, f, term, what='length'):
    if not is_sym(term): return term
    vals = E.concretize(f, term, what, limit=2)
    if len(vals) != 1: raise Unsupported('%s is not unique on this path' % what)
    return vals[0]
def sx(v, bits=32):
    if is_sym(v): return v
    return v - (1 << bits) if v >> (bits - 1) else v

def run_fn(E, fn, mkargs, assume=()):
    """mkargs(st) -> (args, ctxobj); returns (ctxobj, finals)"""
    st = E.new_state(); st.pc = list(assume); st.model = None
    args, cobj = mkargs(st)
    E.call(st, fn, args)
    return cobj, E.run(st)

def decide_paths(E, name, finals, impl_outcome, ref_fn, assume, inputs, key_fn=None):
    """same contract as sesslib.diff_paths (kept separate for flat-function harnesses)"""
    import sesslib
    return sesslib.diff_paths(E, name, finals, impl_outcome, ref_fn, assume, inputs, key_fn)

def cbuf(data):
    return (ctypes.c_ubyte * max(len(data), 1))(*data)

# ------------------------------------------------------------------ flat call specs
# spec: list of ('in', bytes) | ('u32', v) | ('i64', v) | ('out', nbytes) | ('ptr0',)
def spec_engine(E, fn, spec, assume=()):
    """returns list of (final_state, ret, outs) where outs[i](n) reads n bytes of the i-th 'out' buffer"""
    st = E.new_state(); st.pc = list(assume); st.model = None
    args = []; outs = []
    def norm(x):
        if not is_sym(x): return x
        v = z3.simplify(x)
        return v.as_long() if z3.is_bv_value(v) else v
    for a in spec:
        if a[0] == 'in': args.append(put(E, st, [norm(x) for x in a[1]], 8))
        elif a[0] in ('u32', 'i64', 'u64'): args.append(a[1])
        elif a[0] == 'out': p = buf(E, st, a[1] + 8); outs.append(p); args.append(p)
        elif a[0] == 'ptr0': args.append(0)
        else: raise Exception(a)
    E.call(st, fn if fn.startswith('@') else '@' + fn, args)
    fin = E.run(st)
    res = []
    for f in fin:
        ret = f.result[1] if f.result and f.result[0] == 'ret' else None
        res.append((f, ret, [(lambda n, p=p, f=f: [E.load(f, p + i, 1) for i in range(n)]) for p in outs]))
    return res

def spec_native(lib, fn, spec, restype=ctypes.c_uint):
    def conc(x):
        if not is_sym(x): return x
        v = z3.simplify(x)
        assert z3.is_bv_value(v), 'symbolic value in a native call'
        return v.as_long()
    spec = [((a[0], [conc(x) for x in a[1]]) if a[0] == 'in' else ((a[0], conc(a[1])) if a[0] in ('u32', 'i64', 'u64') else a)) for a in spec]
    args = []; outs = []
    for a in spec:
        if a[0] == 'in': args.append(cbuf(list(a[1]) + [0] * 8))
        elif a[0] == 'u32': args.append(ctypes.c_uint(a[1] & 0xffffffff))
        elif a[0] in ('i64', 'u64'): args.append(ctypes.c_int64(sx(a[1] & 0xffffffffffffffff, 64)))
        elif a[0] == 'out': b = (ctypes.c_ubyte * (a[1] + 8))(); outs.append(b); args.append(b)
        elif a[0] == 'ptr0': args.append(None)
    f = getattr(lib, fn.lstrip('@')); f.restype = restype
    ret = f(*args)
    if restype is ctypes.c_uint: ret &= 0xffffffff
    return ret, [(lambda n, b=b: list(b[:n])) for b in outs]

def le(bs):
    """little-endian bytes -> int or term"""
    if not any(is_sym(b) for b in bs): return int.from_bytes(bytes(bs), 'little')
    return simp(z3.Concat(*[bv(b, 8) for b in reversed(bs)]))

def flat_check(E, name, fn, spec, impl_outcome, ref_fn, assume, inputs, key_fn=None, ground=None):
    """impl_outcome(E, f, ret, outs) -> structure"""
    import sesslib
    runs = spec_engine(E, fn, spec, assume)
    finals = [r[0] for r in runs]; m = {id(r[0]): r for r in runs}
    def io(f):
        _, ret, outs = m[id(f)]
        return impl_outcome(E, f, ret, outs)
    return sesslib.diff_paths(E, name, finals, io, ref_fn, assume, inputs, key_fn, ground=ground)
