"""C17 - re-enabled opcodes compute the functions their names denote (one-step differential with allow_disabled_opcodes)."""
import itertools
import C01 as base
import refscript as R
from C01 import setup, replay, validate as _validate, TUS, SHIMS, NATIVE_TUS, ASSUMPTIONS as _A

ID = 'C17'
TITLE = 'one-step differential of StepScript/StepExtended with --allow-disabled-opcodes against string/bitwise/signed-integer reference functions, 15 opcodes'
FUNCTIONS = ['StepExtended(ScriptExecutionEnvironment&, ...) [debugger/interpreter.cpp]', 'disabled-opcode gate in StepScript [script/interpreter.cpp]', 'CScriptNum operator* / % << >> [script/script.h]']
ASSUMPTIONS = _A + ['numeric operands longer than 4 bytes, left shifts of negative numbers, right shifts of negative numbers that leave a remainder (floor vs toward zero), left shifts beyond 2^63 and concatenations beyond 520 bytes are not prescribed by the property: only crash-freedom is demanded there',
                    'invalid operands must yield *some* script error (or a caught exception), which one is not prescribed']
OUTSIDE = ['operands longer than 5 bytes', 'tapscript (these byte values are OP_SUCCESSx there)']
BOUNDS = {'quick': '15 opcodes x {BASE, WITNESS_V0} x operand lengths {0,1,2,4,5} (uniform and mixed) x depth arity-1..arity+1; option off: executed and unexecuted',
          'thorough': '15 opcodes x {BASE, WITNESS_V0} x operand lengths {0..5}^arity; option off: executed and unexecuted, vfExec shapes up to 3'}
ARITY = {'OP_CAT': 2, 'OP_SUBSTR': 3, 'OP_LEFT': 2, 'OP_RIGHT': 2, 'OP_INVERT': 1, 'OP_AND': 2, 'OP_OR': 2, 'OP_XOR': 2, 'OP_2MUL': 1, 'OP_2DIV': 1, 'OP_MUL': 2, 'OP_DIV': 2,
         'OP_MOD': 2, 'OP_LSHIFT': 2, 'OP_RSHIFT': 2}

def obligations(tier, seed):
    obs = []
    def add(**kw):
        kw.setdefault('alt', 0); kw.setdefault('vf', (0, None)); kw.setdefault('extra', 0); kw.setdefault('prefix', 0); kw.setdefault('checker', 0); kw.setdefault('mode', 0); kw['pid'] = 'C17'
        kw['name'] = '%s/sv%d/allow%d/st%s/vf%s/m%d%s' % (R.NAME[kw['op']], kw['sv'], kw['allow'], '.'.join(map(str, kw['lens'])), '%d-%s' % kw['vf'], kw['mode'], ''.join('/c%s=%s' % (k, bytes(v).hex()) for k, v in (kw.get('cvals') or {}).items()))
        obs.append(kw)
    for sv in (R.BASE, R.WITNESS_V0):
        for n, k in ARITY.items():
            o = R.OP[n]
            L = (0, 1, 2, 4, 5) if tier == 'quick' else (0, 1, 2, 3, 4, 5)
            if n in ('OP_SUBSTR',):
                combos = [(a, b, c) for a in ((0, 1, 3) if tier == 'quick' else (0, 1, 2, 3, 5)) for b in (0, 1, 2, 3) for c in (0, 1, 2, 3)]
                if tier == 'quick': combos = [c for c in combos if c[1] <= 1 or c[2] <= 1]
            elif n in ('OP_LEFT', 'OP_RIGHT'): combos = [(a, b) for a in (0, 1, 3, 5) for b in (0, 1, 2, 3)]
            elif n in ('OP_CAT', 'OP_AND', 'OP_OR', 'OP_XOR'): combos = list(itertools.product((0, 1, 3), repeat=2)) if tier == 'quick' else list(itertools.product((0, 1, 2, 3, 5), repeat=2))
            elif k == 1: combos = [(x,) for x in L]
            else: combos = list(itertools.product(L, repeat=2)) if tier != 'quick' else [(a, b) for a in L for b in L if a == b or a in (0, 1) or b in (0, 1)]
            if n in ('OP_MUL', 'OP_DIV', 'OP_MOD'):
                # symbolic x symbolic multiplication/division does not finish in a bit-blasting solver beyond 8x8 bits (measured: 1x2 bytes > 160 s), and multiplication/division of a 4-byte symbolic operand by 127/255 returns unknown after 20 s;
                # bound: one operand from a boundary set (concrete), the other symbolic up to 4 bytes, plus fully symbolic 1x1 bytes
                POW2 = [[], [1], [0x81], [2], [0x00, 0x01]]                      # 0, 1, -1, 2, 256: symbolic operand up to 4 bytes
                OTHER = [[3], [0x7f], [0x80, 0x00], [0xff, 0x00], [0xff, 0xff, 0xff, 0x7f]]     # 3, 127, 128, 255, 2^31-1: symbolic operand up to 2 (quick) / 3 bytes
                for cv in POW2:
                    for L0 in (0, 1, 2, 4): add(op=o, sv=sv, allow=1, lens=(L0, len(cv)), cvals={'1': cv})
                    add(op=o, sv=sv, allow=1, lens=(len(cv), 2), cvals={'0': cv})
                    add(op=o, sv=sv, allow=1, lens=(5, len(cv)), cvals={'1': cv})
                for cv in OTHER:
                    for L0 in ((0, 1, 2) if (tier == 'quick' or len(cv) == 4) else (0, 1, 2, 3)): add(op=o, sv=sv, allow=1, lens=(L0, len(cv)), cvals={'1': cv})          # 3 symbolic bytes x 2^31-1: unknown after 120 s
                    add(op=o, sv=sv, allow=1, lens=(len(cv), 1), cvals={'0': cv})
                combos = [(1, 1), (0, 0)]
            for lens in combos:
                add(op=o, sv=sv, allow=1, lens=tuple(lens))
            add(op=o, sv=sv, allow=1, lens=tuple([1] * (k - 1)))                         # underflow
            add(op=o, sv=sv, allow=1, lens=tuple([2] + [1] * k))                          # one deeper
            add(op=o, sv=sv, allow=1, lens=tuple([1] * k), mode=4)                        # through Instance::step (exceptions become failed steps)
            add(op=o, sv=sv, allow=1, lens=tuple([1] * k), vf=(1, 0))                     # enabled but unexecuted
            for vf in ((0, None), (1, 0), (2, 1)) if tier == 'quick' else base.VF_ALL:
                add(op=o, sv=sv, allow=0, lens=tuple([1] * k), vf=vf)                     # option off: DISABLED_OPCODE even when unexecuted
    return obs

run = base.run
def validate(E, lib): return _validate(E, lib)
