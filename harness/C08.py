"""C08 - non-interactive btcdeb prints the final stack and never exits abnormally (the real main() executed symbolically)."""
import z3, os
import maindeb, stubs, refscript as R, refexec, sesslib, hlib, runtool, build
from irsym import is_sym
from core import mkres, EncoderMismatch
import C07, C16

ID = 'C08'
TITLE = "btcdeb's real main() run in the engine in non-interactive mode (scripted argv / tty-ness / stdin; script structure concrete, stack arguments symbolic): exit code and stdout against the reference run of the same script; no exception may leave main"
TUS = maindeb.TUS; SHIMS = maindeb.SHIMS
NATIVE = True
PARTS = ['C08cont']
NATIVE_TUS = build.ALL_NATIVE + ['instance', 'functions', 'kerl']
FUNCTIONS = ['main() of btcdeb.cpp (option parsing via cliargs, script/stack parsing, setup_environment, listing construction, ContinueScript, print_stack raw)', 'ContinueScript', 'print_stack', 'HexStr',
             'Instance::parse_script / parse_stack_args / setup_environment', 'Value(const char*) / data_value']
ASSUMPTIONS = ['process environment is modelled: getopt_long (GNU semantics, one short option per argument), isatty/fileno, printf family (captured), fgets from a scripted stdin, getenv() returns NULL (no DEBUG_* variables)',
               'logging (btc_logf*) and tinyformat output discarded; allocation never fails', 'flags are the standard set unless -f is given; script version BASE; no transaction']
OUTSIDE = ['DEBUG_* environment variables and --debug sets (logging is stubbed, so independence from them is not decided)', 'scripts longer than 6 operations', 'signature opcodes (C02)']
BOUNDS = 'script templates (27 shapes covering arithmetic, conditionals, stack ops, failures raised as exceptions, unbalanced conditionals, multi-item results) with 0-3 stack arguments given as 0x-hex literals of 1-5 bytes (all hex digits symbolic) or decimal literals; {stdout not a tty, stdin not a tty (script on stdin), both}; -q; --verbose refusal'

def setup(E): maindeb.setup(E)

SCRIPTS = [
    ('OP_ADD', [1, 1]), ('OP_ADD', [5, 1]), ('OP_ADD', [1]), ('OP_ADD OP_VERIFY', [1, 1]), ('OP_1ADD OP_DUP', [2]), ('OP_SUB OP_ABS OP_NEGATE', [1, 1]),
    ('OP_IF OP_1 OP_ELSE OP_2 OP_ENDIF', [1]), ('OP_IF OP_1', [1]), ('OP_NOTIF OP_RETURN OP_ENDIF OP_3', [1]), ('OP_ENDIF', []), ('OP_1 OP_2 OP_3', []), ('OP_DROP', []), ('OP_DROP', [2]),
    ('OP_EQUAL', [2, 2]), ('OP_EQUALVERIFY OP_1', [1, 1]), ('OP_SIZE OP_SWAP OP_TOALTSTACK', [3]), ('OP_PICK', [1, 1, 1]), ('OP_WITHIN', [1, 1, 1]), ('OP_DEPTH OP_NIP', [1]), ('OP_HASH160', [1]),
    ('OP_NOP1', []), ('OP_CHECKLOCKTIMEVERIFY', [1]), ('OP_CAT', [1, 1]), ('OP_RESERVED', []), ('OP_FROMALTSTACK', []), ('OP_0 OP_NOT OP_VERIFY', []), ('0x????', []), ('OP_MIN OP_NUMEQUAL', [1, 1, 1]),
]

def obligations(tier, seed):
    obs = []
    for i, (sc, args) in enumerate(SCRIPTS):
        for mode in (('out',) if (tier == 'quick' and i % 3) else ('out', 'in', 'both')):
            obs.append(dict(name='run/%s/args%s/%s' % (sc, '.'.join(map(str, args)), mode), kind='run', script=sc, args=args, mode=mode, opts=[]))
    # the quiet option must not change result or exit status: every template once more with -q / --quiet (seed C08-3: -q turned script failures into exit 0)
    for i, (sc, args) in enumerate(SCRIPTS):
        obs.append(dict(name='run/%s/args%s/%s/%s' % (sc, '.'.join(map(str, args)), 'out' if i % 2 else 'in', '-q' if i % 3 else '--quiet'), kind='run', script=sc, args=args, mode='out' if i % 2 else 'in', opts=['-q' if i % 3 else '--quiet']))
    obs.append(dict(name='run/OP_ADD/args1.1/out/-q-explicit', kind='run', script='OP_ADD', args=[1, 1], mode='out', opts=['-q']))
    obs.append(dict(name='run/OP_ADD/args5.1/out/--quiet-explicit', kind='run', script='OP_ADD', args=[5, 1], mode='out', opts=['--quiet']))
    obs.append(dict(name='run/OP_1/dec-args', kind='run', script='OP_ADD', args=['d2', 'd1'], mode='out', opts=[]))
    # line terminators of the script read from stdin (seed C08-4: only the first LF was cut off, a CR stayed on the script text)
    for eol in ('crlf', 'cr', 'none', 'crcrlf'):
        obs.append(dict(name='run/OP_ADD/args1.1/in/eol-%s' % eol, kind='run', script='OP_ADD', args=[1, 1], mode='in', opts=[], eol=eol))
        obs.append(dict(name='run/OP_EQUALVERIFY OP_1/args1.1/both/eol-%s' % eol, kind='run', script='OP_EQUALVERIFY OP_1', args=[1, 1], mode='both', opts=[], eol=eol))
    # long items: the printed line grows with the item (a 520-byte item is a 1040-character line)
    for n in (75, 76, 255, 256, 511, 512, 520):
        obs.append(dict(name='run/long-item-%d/out' % n, kind='run', script='OP_NOP', args=[('L', n)], mode='out', opts=[]))
    obs.append(dict(name='run/long-items-520-1-520/in', kind='run', script='OP_SWAP', args=[('L', 520), 1, ('L', 519)], mode='in', opts=[]))
    # stack arguments whose value is the empty vector ("0x", "0", ""): they are items like any other (seed C08-5 skipped them)
    for j, ea in enumerate([0, ('s', '0', []), ('s', '', [])]):
        obs.append(dict(name='run/OP_DEPTH/empty-arg-%d/out' % j, kind='run', script='OP_DEPTH', args=[ea, 1], mode='out', opts=[]))
        obs.append(dict(name='run/OP_SIZE/empty-arg-%d/in' % j, kind='run', script='OP_SIZE', args=[1, ea], mode='in', opts=[]))
    # -z: the re-enabled opcodes; operands that are too long / not minimal make CScriptNum throw inside StepExtended - still a script error, exit 1 (seed C08-7: noexcept there = abort)
    for sc, args in (('OP_2MUL', [5]), ('OP_3 OP_MUL', [5]), ('OP_1 OP_LSHIFT', [5]), ('OP_1 OP_SUBSTR', [1, 3]), ('OP_2 OP_DIV', [5]), ('OP_CAT', [1, 1]), ('OP_0 OP_IF OP_CAT OP_ENDIF', [1])):
        obs.append(dict(name='run/%s/args%s/-z' % (sc, '.'.join(map(str, args))), kind='run', script=sc, args=args, mode='out', opts=['-z']))
    obs.append(dict(name='run/OP_CAT/args1.1/no-z', kind='run', script='OP_CAT', args=[1, 1], mode='in', opts=[]))
    obs.append(dict(name='verbose-refused', kind='verbose', script='OP_1', args=[], mode='out', opts=['-v']))
    return obs

def build_args(ob, V=None):
    sym = V is None
    def var(n): return z3.BitVec(n, 8) if sym else V.get(n, 0)
    assume = []
    def hexchars(pfx, nbytes):
        cs = [var('%s_%d' % (pfx, i)) for i in range(2 * nbytes)]
        if sym:
            for c in cs: assume.append(z3.Or(z3.And(z3.UGE(c, 48), z3.ULE(c, 57)), z3.And(z3.UGE(c, 97), z3.ULE(c, 102))))
        return cs
    toks = ob['script'].split(' ')
    sc_chars = [ord('[')]; sc_syms = []
    for i, t in enumerate(toks):
        if i: sc_chars.append(32)
        if t.startswith('0x') and '?' in t:
            cs = hexchars('sc%d' % i, (len(t) - 2) // 2); sc_chars += list(b'0x') + cs; sc_syms.append((i, cs))
        else: sc_chars += list(t.encode())
    sc_chars.append(ord(']'))
    args = []; arg_syms = []; long_syms = []
    for i, a in enumerate(ob['args']):
        if isinstance(a, str) and a.startswith('d'):
            nd = int(a[1:]); cs = [var('a%d_%d' % (i, k)) for k in range(nd)]
            if sym:
                for c in cs: assume.append(z3.And(z3.UGE(c, 48), z3.ULE(c, 57)))
                assume.append(cs[0] != 48)
            args.append(cs); arg_syms.append(('dec', cs))
        elif isinstance(a, tuple) and a[0] == 's':
            args.append(list(a[1].encode())); arg_syms.append(('lit', list(a[2])))
        elif isinstance(a, tuple) and a[0] == 'L':
            # long item: all bytes concrete except the last one (the line printed for it is 2n characters long)
            cs = hexchars('a%d' % i, 1); full = list(b'ab' * (a[1] - 1)) + cs; args.append(list(b'0x') + full); arg_syms.append(('hex', full)); long_syms.append(cs)
        else:
            cs = hexchars('a%d' % i, a); args.append(list(b'0x') + cs); arg_syms.append(('hex', cs))
    argv = [list(b'btcdeb')] + [list(o.encode()) for o in ob['opts']]
    stdin = None
    if ob['mode'] == 'out': tty = (1, 0, 1); argv += [sc_chars] + args
    EOL = {'lf': [10], 'crlf': [13, 10], 'cr': [13], 'none': [], 'crcrlf': [13, 13, 10], 'lflf': [10, 10]}[ob.get('eol', 'lf')]          # how the script line on stdin ends
    if ob['mode'] == 'out': pass
    elif ob['mode'] == 'in': tty = (0, 1, 1); stdin = sc_chars + EOL; argv += args
    else: tty = (0, 0, 1); stdin = sc_chars + EOL; argv += args
    inputs = dict(args=[[c for c in cs if is_sym(c)] if sym else cs for _, cs in arg_syms], sc=[cs for _, cs in sc_syms])
    return argv, tty, stdin, assume, toks, sc_syms, arg_syms, inputs

def reference(ctx, ob, toks, sc_syms, arg_syms):
    """compile the script text by the documented grammar, run it by the reference rules from the given stack under the standard flags"""
    script = []
    symmap = {i: cs for i, cs in sc_syms}
    for i, t in enumerate(toks):
        if i in symmap:
            cs = symmap[i]; data = [z3.simplify((C07.hexv(cs[2 * k]) << 4) | C07.hexv(cs[2 * k + 1])) for k in range(len(cs) // 2)]
            script += C07.minimal_push(ctx, data)
        else: script.append(C16.NAMES[t])
    stack = []
    for kind, cs in arg_syms:
        if kind == 'lit': stack.append(list(cs))
        elif kind == 'hex': stack.append([z3.simplify((C07.hexv(cs[2 * k]) << 4) | C07.hexv(cs[2 * k + 1])) for k in range(len(cs) // 2)])
        else:
            v = z3.BitVecVal(0, 64)
            for c in cs: v = v * 10 + z3.ZeroExt(56, R.B(c) - 48)
            stack.append(R.num_encode(ctx, z3.simplify(v)))
    import C09
    S = R.RS(stack=stack, alt=[], vf_size=0, vf_ff=None, nop=z3.BitVecVal(0, 32), flags=z3.BitVecVal(C09.STANDARD, 32), sigversion=R.BASE, script=script, pc=0)
    S.allow_disabled = '-z' in ob.get('opts', [])
    # the minimal-push form of symbolic pushes has a value-dependent length: ref decode works on the concrete structure chosen above
    while S.pc < len(S.script):
        r = R.ref_step(ctx, S)
        if not r['ok']: return dict(code=1, stdout='*')
        S.stack = r['stack']; S.alt = r['alt']; S.vf_size = r['vf'][0]; S.vf_ff = None if r['vf'][1] == r['vf'][0] else r['vf'][1]; S.nop = r['nop']; S.pc = r['pc']
    if S.vf_size: return dict(code=1, stdout='*')
    out = []
    for it in S.stack: out += C07.to_hex(it) + [10]
    return dict(code=0, stdout=out)

def run(E, ob):
    argv, tty, stdin, assume, toks, sc_syms, arg_syms, inputs = build_args(ob)
    fin = maindeb.run_main(E, argv, tty, stdin, assume)
    if ob['kind'] == 'verbose':
        ref = lambda ctx: dict(code=1, stdout='*')
    else:
        ref = lambda ctx: reference(ctx, ob, toks, sc_syms, arg_syms)
    def io(f):
        o = maindeb.outcome(f)
        if isinstance(o, dict) and not is_sym(o['code']) and o['code'] != 0: o['stdout'] = '*'       # on failure the diagnostic text (dual-stack dump) is not prescribed
        return o
    def key(a, b):
        if isinstance(a, (list, tuple)): return 'C08:' + str(a[1])
        return 'C08:%s:%s' % (ob['script'], 'code' if a.get('code') != b.get('code') else 'stdout')
    return sesslib.diff_paths(E, ob['name'], fin, io, ref, assume, inputs, key, crash_everywhere=True)          # abnormal termination is a violation also where the result is not compared

def concrete_argv(ob, cex):
    V = {}
    for i, cs in enumerate(cex.get('args', [])):
        for k, c in enumerate(cs): V['a%d_%d' % (i, k)] = c
    toks = ob['script'].split(' '); k = 0
    for i, t in enumerate(toks):
        if t.startswith('0x') and '?' in t:
            for j, c in enumerate(cex['sc'][k]): V['sc%d_%d' % (i, j)] = c
            k += 1
    return build_args(ob, V)

def replay(lib, ob, cex):
    """replay on the real binary rebuilt from the working tree (pty on the streams the scenario says are terminals)"""
    argv, tty, stdin, _, toks, sc_syms, arg_syms, _ = concrete_argv(ob, cex)
    wd = os.path.dirname(lib._name)
    exe = maindeb.build_btcdeb(wd)
    cmd = [exe] + [bytes(a).decode('latin1') for a in argv[1:]]
    rc, out, err = runtool.run(cmd, stdin_tty=bool(tty[0]), stdout_tty=bool(tty[1]), stdin_data=bytes(stdin) if stdin else None)
    cases, _ = refexec.explore(lambda ctx: reference(ctx, ob, toks, sc_syms, arg_syms) if ob['kind'] != 'verbose' else dict(code=1, stdout='*'))
    s = z3.Solver(); s.check(); ro = sesslib.concretize(s.model(), cases[0][1])
    if isinstance(ro, (tuple, list)) and ro and ro[0] == 'ref_abort':
        # no result prescribed for this input: only abnormal termination counts
        return (rc is None or rc < 0 or rc > 1), 'real binary: %s -> exit %s, stderr %r ; a normal exit (0 or 1) is required' % (' '.join(cmd[1:]), rc, err[:160])
    want_out = bytes(ro['stdout']) if ro['stdout'] != '*' else None
    out_n = out.replace(b'\r\n', b'\n')
    bad = (rc is None) or rc < 0 or rc != ro['code'] or (want_out is not None and out_n != want_out)
    return bad, 'real binary: %s -> exit %s, stdout %r, stderr %r ; expected exit %d%s' % (' '.join(cmd[1:]), rc, out_n[:200], err[:160], ro['code'], (', stdout %r' % want_out) if want_out is not None else '')

def validate(E, lib):
    """engine vs the real binary on concrete command lines"""
    n = 0
    wd = os.path.dirname(lib._name); exe = maindeb.build_btcdeb(wd)
    for (sc, args, mode) in [('OP_1 OP_2 OP_ADD', [], 'out'), ('OP_ADD', ['0x01', '0x02'], 'out'), ('OP_IF OP_1 OP_ELSE OP_2 OP_ENDIF', ['0x'], 'out'), ('OP_ADD OP_VERIFY', ['1', '2'], 'out'), ('OP_DROP', [], 'out'),
                             ('OP_1 OP_2 OP_3', [], 'in'), ('OP_SIZE', ['0xaabbcc'], 'both'), ('OP_RETURN', [], 'out'), ('OP_HASH160', ['0xab'], 'out')]:
        sc_chars = list(('[' + sc + ']').encode())
        argv = [list(b'btcdeb')]
        if mode == 'out': tty = (1, 0, 1); stdin = None; argv += [sc_chars] + [list(a.encode()) for a in args]
        else: tty = (0, 1 if mode == 'in' else 0, 1); stdin = sc_chars + [10]; argv += [list(a.encode()) for a in args]
        fin = maindeb.run_main(E, argv, tty, stdin)
        if len(fin) != 1: raise EncoderMismatch('concrete main() run forked: %s' % sc)
        o = maindeb.outcome(fin[0])
        rc, out, err = runtool.run([exe] + [bytes(a).decode() for a in argv[1:]], stdin_tty=bool(tty[0]), stdout_tty=bool(tty[1]), stdin_data=bytes(stdin) if stdin else None)
        out = out.replace(b'\r\n', b'\n')
        if isinstance(o, tuple): raise EncoderMismatch('engine: %s on %s (binary: rc %s)' % (o, sc, rc))
        if o['code'] != rc or (rc == 0 and bytes(o['stdout']) != out): raise EncoderMismatch('engine (%s, %r) != binary (%s, %r) on %s %s' % (o['code'], bytes(o['stdout']), rc, out, sc, mode))
        n += 1
    return n
