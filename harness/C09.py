"""C09 - flag modification is exact; verification flags only ever restrict (relational self-composition of one step)."""
import z3, random, os, itertools
import stubs, hlib, sesslib, refscript as R, refexec
import C01 as base
from irsym import is_sym, bv, simp
from core import mkres, EncoderMismatch
import build as _b

ID = 'C09'
TITLE = 'svf_parse_flags/svf_get_flag/svf_string/STANDARD_SCRIPT_VERIFY_FLAGS against a restated name->bit table (in_flags symbolic), and flag monotonicity of one interpreter step by self-composition over two flag words A subset-of B'
TUS = base.TUS + ['functions']
SHIMS = ['sess', 'flags']
NATIVE_TUS = _b.ALL_NATIVE + ['instance', 'functions', 'kerl']
PARTS = ['C09flags']
FUNCTIONS = ['svf_parse_flags', 'svf_get_flag', 'svf_string', 'svf table (static initialiser of btcdeb.cpp)', 'STANDARD_SCRIPT_VERIFY_FLAGS', 'StepScript(ScriptExecutionEnvironment&,...) under two flag words']
ASSUMPTIONS = base.ASSUMPTIONS + ['exit(1) inside svf_parse_flags is the rejection outcome', 'monotonicity is decided per step from an arbitrary common pre-state; whole runs follow by induction on the number of steps',
                                  'signature checks answer through one uninterpreted oracle shared by both executions',
                                  'the session-level fRequireMinimal/is_p2sh bits are derived from the same flag word at construction']
OUTSIDE = ['flag lists longer than two entries (the parser loop is uniform in the number of entries)', 'flag tokens of 127+ characters (stack buffer; decided by C15)']
BOUNDS = 'parse: every +NAME/-NAME (21 names), ordered pairs (sampled by seed in quick, all 1764 in thorough), every string of length 0..6 with all characters symbolic; monotonicity: every opcode x {BASE,WITNESS_V0,TAPSCRIPT}, operands 1 byte (symbolic), signature opcodes also with signature lengths {0,1,9,64} x key lengths {32,33,65}, flags A,B symbolic with A subset-of B'

NAMES = ['P2SH', 'STRICTENC', 'DERSIG', 'LOW_S', 'NULLDUMMY', 'SIGPUSHONLY', 'MINIMALDATA', 'DISCOURAGE_UPGRADABLE_NOPS', 'CLEANSTACK', 'CHECKLOCKTIMEVERIFY', 'CHECKSEQUENCEVERIFY',
         'WITNESS', 'DISCOURAGE_UPGRADABLE_WITNESS_PROGRAM', 'MINIMALIF', 'NULLFAIL', 'WITNESS_PUBKEYTYPE', 'CONST_SCRIPTCODE', 'TAPROOT', 'DISCOURAGE_UPGRADABLE_TAPROOT_VERSION',
         'DISCOURAGE_OP_SUCCESS', 'DISCOURAGE_UPGRADABLE_PUBKEYTYPE']
BIT = {n: 1 << i for i, n in enumerate(NAMES)}                      # restated: bit i of the flag word, in the order Bitcoin defines them
STANDARD = sum(BIT.values()) & ~BIT['SIGPUSHONLY']                   # the standard (relay policy) set: everything except SIGPUSHONLY

def setup(E):
    base.setup(E); stubs.install_oracle(E)

def obligations(tier, seed):
    obs = []
    for n in NAMES + ['BOGUS', '', 'P2SHX', 'p2sh']: obs.append(dict(name='get/' + n, kind='get', s=n))
    for n in NAMES:
        for sg in '+-': obs.append(dict(name='parse/%s%s' % (sg, n), kind='parse', s=sg + n))
    pairs = [(a, sa, b, sb) for a in NAMES for b in NAMES for sa in '+-' for sb in '+-']
    if tier == 'quick': pairs = random.Random(seed).sample(pairs, 48) + [('P2SH', '+', 'P2SH', '-'), ('P2SH', '-', 'P2SH', '+'), ('WITNESS', '+', 'WITNESS', '+')]
    for (a, sa, b, sb) in pairs: obs.append(dict(name='parse/%s%s,%s%s' % (sa, a, sb, b), kind='parse', s='%s%s,%s%s' % (sa, a, sb, b)))
    for s in ['P2SH', '+', '-', ',', '+P2SH,', ',+P2SH', '+P2SH,,-LOW_S', '+BOGUS', '+P2SH -LOW_S', ' +P2SH', '+p2sh', '+P2SH,LOW_S']: obs.append(dict(name='parse/bad/' + s, kind='parse', s=s))
    for L in range(0, 7): obs.append(dict(name='parse/sym/L%d' % L, kind='parsesym', L=L))
    obs.append(dict(name='modify/-NULLDUMMY,+SIGPUSHONLY', kind='modify', s='-NULLDUMMY,+SIGPUSHONLY'))
    obs.append(dict(name='modify/empty', kind='modify', s=''))
    obs.append(dict(name='std', kind='std'))
    obs.append(dict(name='string/std', kind='string', flags=STANDARD))
    for fl in [0, sum(BIT.values())] + [BIT[n] for n in NAMES]: obs.append(dict(name='string/%#x' % fl, kind='string', flags=fl))
    for lo in (0, 6, 12, 17): obs.append(dict(name='string/sym%d' % lo, kind='stringsym', lo=lo))
    # monotonicity
    for sv in (R.BASE, R.WITNESS_V0, R.TAPSCRIPT):
        for o in range(256):
            if sv == R.TAPSCRIPT and R.is_op_success(o): continue
            if tier == 'quick' and 0x03 <= o <= 0x4b: continue
            k = base.ARITY.get(o, 0); ck = 0
            if o in R.SIGOPS: k = {0xac: 2, 0xad: 2, 0xba: 3}.get(o, 5); ck = 2
            if o in base.LOCK: ck = 1
            for vf in ((0, None), (1, 0)) if o not in base.CONTROL else ((0, None), (1, 0), (1, None)):
                obs.append(dict(name='mono/op%02x/sv%d/vf%d-%s' % (o, sv, vf[0], vf[1]), kind='mono', op=o, sv=sv, vf=vf, k=k, checker=ck))
            # signature opcodes: the encoding rules look at signature and key lengths (seed C09-2: STRICTENC switched on hid the WITNESS_PUBKEYTYPE rule for 65-byte keys)
            if o in R.SIGOPS:
                if o in (0xac, 0xad): shapes = [(sl, kl) for sl in (0, 1, 9) for kl in (32, 33, 65)]
                elif o == 0xba: shapes = [(sl, 1, kl) for sl in (0, 1, 64) for kl in (1, 32, 33)]
                else: shapes = [(0, sl, 1, kl, 1) for sl in (0, 9) for kl in (33, 65)]
                if sv == R.TAPSCRIPT and o in (0xae, 0xaf): shapes = []
                if sv != R.TAPSCRIPT and o == 0xba: shapes = []
                for sh in shapes:
                    obs.append(dict(name='mono/op%02x/sv%d/st%s' % (o, sv, '.'.join(map(str, sh))), kind='mono', op=o, sv=sv, vf=(0, None), k=k, checker=ck, lens=sh))
    return obs

def ref_parse(in_flags, s):
    """the documented grammar: comma separated list of +NAME / -NAME; anything else is rejected"""
    if s == '': return dict(ok=1, flags=in_flags)
    f = R.B(in_flags, 32)
    for tok in s.split(','):
        if len(tok) < 2 or tok[0] not in '+-' or tok[1:] not in BIT: return dict(ok=0)
        f = (f | BIT[tok[1:]]) if tok[0] == '+' else (f & ~BIT[tok[1:]] & 0xffffffff)
    return dict(ok=1, flags=z3.simplify(f))

def prep(ob, V=None):
    def var(n, bits): return z3.BitVec(n, bits) if V is None else V.get(n, 0)
    k = ob['kind']
    def io_u32(E, f, ret, outs):
        if ret is None:
            if f.result and f.result[0] == 'exit': return dict(ok=0)
            return ('crash', f.result[1] if f.result else 'none', f.result[2] if f.result and len(f.result) > 2 else '')
        return dict(ok=1, flags=ret)
    if k == 'get':
        return 'w_svf_get', [('in', list(ob['s'].encode()) + [0])], io_u32, lambda ctx: dict(ok=1, flags=BIT.get(ob['s'], 0)), [], {}
    if k == 'parse':
        inf = var('in_flags', 32)
        return 'w_svf_parse', [('u32', inf), ('in', list(ob['s'].encode()) + [0])], io_u32, lambda ctx: ref_parse(inf, ob['s']), [], dict(in_flags=inf)
    if k == 'modify':
        return 'w_modify_flags', [('in', list(ob['s'].encode()) + [0])], io_u32, lambda ctx: ref_parse(STANDARD, ob['s']), [], {}
    if k == 'parsesym':
        inf = var('in_flags', 32); chars = [var('c%d' % i, 8) for i in range(ob['L'])]
        assume = [c != 0 for c in chars] if V is None else []
        def ref(ctx):
            # strings of up to 6 characters: only +NAME / -NAME with a name of at most 5 characters can be accepted
            L = ob['L']
            if L == 0: return dict(ok=1, flags=inf)
            for n in NAMES:
                if len(n) + 1 == L:
                    for sg in '+-':
                        if ctx.branch(z3.And(*[R.B(c) == ord(ch) for c, ch in zip(chars, sg + n)])): return ref_parse(inf, sg + n)
            return dict(ok=0)
        return 'w_svf_parse', [('u32', inf), ('in', chars + [0])], io_u32, ref, assume, dict(in_flags=inf, chars=chars)
    if k == 'std':
        return 'w_std_flags', [], io_u32, lambda ctx: dict(ok=1, flags=STANDARD), [], {}
    if k in ('string', 'stringsym'):
        fl = ob['flags'] if k == 'string' else var('fl', 32)
        assume = [(fl & ~(0xf << ob['lo'])) == 0] if (k == 'stringsym' and V is None) else []
        def io(E, f, ret, outs):
            if ret is None: return ('crash', f.result[1] if f.result else 'none', '')
            n = hlib.uniq(E, f, ret) if f is not None else ret
            return dict(s=outs[0](n))
        def ref(ctx):
            names = []
            for nm in NAMES:
                if ctx.branch((R.B(fl, 32) & BIT[nm]) != 0): names.append(nm)
            s = ','.join(names) if names else '(none)'
            return dict(s=list(s.encode()))
        return 'w_svf_string', [('u32', fl), ('out', 700)], io, ref, assume, dict(fl=fl)
    raise Exception(k)

def run(E, ob):
    if ob['kind'] == 'mono': return run_mono(E, ob)
    fn, spec, io, ref, assume, inputs = prep(ob)
    return hlib.flat_check(E, ob['name'], fn, spec, io, ref, assume, inputs, lambda a, b: 'C09:%s:%s' % (ob['kind'], ob.get('s', ob.get('L', ''))))

# ------------------------------------------------------------------ monotonicity (self-composition)
def mono_ob(ob):
    o = ob['op']
    lens = tuple([1] * ob['k'])
    d = dict(op=o, sv=ob['sv'], lens=lens, alt=1, vf=ob['vf'], extra=0, prefix=0, checker=ob['checker'], mode=0, name=ob['name'], pid='C09')
    if o < 0x4c: d['plen'] = o
    elif o <= 0x4e: d['plen'] = 1
    if o in (0xae, 0xaf): d['lens'] = (0, 1, 1, 1, 1); d['cvals'] = {'2': [1], '4': [1]}
    if ob.get('lens'):
        d['lens'] = tuple(ob['lens'])
        if o in (0xae, 0xaf): d['cvals'] = {'2': [1], '4': [1]}
    return d

def run_mono(E, ob):
    cob = mono_ob(ob)
    req, S, inputs, assume = base.build(cob)
    out, fin = sesslib.engine_call(E, req, assume=assume)
    flags = inputs['flags']
    FA, FB = z3.BitVec('flagsA', 32), z3.BitVec('flagsB', 32)
    res = mkres(ob['name'], paths=len(fin)); classes = {}
    recs = []
    for f in fin:
        if f.result is None or f.result[0] != 'ret':
            io = ('crash', f.result[1] if f.result else 'none', '')
        else:
            io = base.impl_outcome_from(sesslib.engine_reply(E, f, out, 0), 0)
        c = sesslib.outcome_class(io); classes[c] = classes.get(c, 0) + 1
        recs.append((f, io))
    res['classes'] = classes
    V = refexec.Verdict()
    def sub(x, to):
        if isinstance(x, (list, tuple)): return [sub(y, to) for y in x]
        if isinstance(x, dict): return {k: sub(v, to) for k, v in x.items()}
        if is_sym(x): return z3.substitute(x, (flags, to))
        return x
    for (fb, iob) in recs:                      # execution under the larger flag set B
        if isinstance(iob, tuple) or not iob.get('ok'): continue
        pcb = [sub(c, FB) for c in fb.pc]; ob_ = sub(iob, FB)
        for (fa, ioa) in recs:                  # execution under the subset A
            ioa_ = sub(ioa, FA) if not isinstance(ioa, tuple) else ioa
            d = refexec.differs(ioa_, ob_)
            if d is False: continue
            sol = z3.Solver(); sol.set('timeout', E.query_timeout_ms)
            for c in pcb: sol.add(c)
            for c in fa.pc: sol.add(sub(c, FA))
            sol.add((FA & ~FB) == 0)
            # one oracle for both executions
            for (a1, v1) in fa.aux.get('oracle', []):
                for (a2, v2) in fb.aux.get('oracle', []):
                    if a1[0] == a2[0] and a1[4] == a2[4] and all(len(p) == len(q) for p, q in zip(a1[1:4], a2[1:4])):
                        eqs = [bv(x, 8) == bv(y, 8) for p, q in zip(a1[1:4], a2[1:4]) for x, y in zip(p, q)]
                        sol.add(z3.Implies(z3.And(*[sub(e, FA) for e in eqs]) if eqs else z3.BoolVal(True), v1 == v2))
            if d is not True: sol.add(d)
            import time as _t
            t0 = _t.time(); r = sol.check(); V.time += _t.time() - t0; V.queries += 1
            if r == z3.sat:
                V.sat += 1; V.status = 'violated'; m = sol.model()
                res['cex'] = sesslib.concretize(m, dict(inputs, flagsA=FA, flagsB=FB))
                res['note'] = 'step succeeds under flags B=%#x but under the subset A=%#x gives %s (B: %s)' % (m.eval(FB, True).as_long(), m.eval(FA, True).as_long(), sesslib.short(sesslib.concretize(m, ioa_), 200), sesslib.short(sesslib.concretize(m, ob_), 200))
                res['key'] = 'C09:mono:%s' % R.NAME.get(ob['op'], 'op%02x' % ob['op'])
                break
            elif r == z3.unknown: V.unknown += 1; V.status = 'inconclusive' if V.status == 'holds' else V.status
            else: V.unsat += 1
        if V.status == 'violated': break
    res['status'] = V.status; res['queries'] = V.queries; res['sat'] = V.sat; res['unsat'] = V.unsat; res['unknown'] = V.unknown; res['solver_s'] = V.time; res['ref_cases'] = 0
    if not fin: res['status'] = 'inconclusive'; res['note'] = 'no path'
    return res

def _fork_call(fn):
    """run fn() in a forked child (svf_parse_flags calls exit(1) on rejection); returns ('ok', value) or ('exit', code) or ('signal', n)"""
    r, w = os.pipe(); pid = os.fork()
    if pid == 0:
        try:
            v = fn(); os.write(w, repr(v).encode()); os._exit(0)
        except BaseException: os._exit(99)
    os.close(w); data = b''
    while True:
        b = os.read(r, 65536)
        if not b: break
        data += b
    os.close(r); _, st = os.waitpid(pid, 0)
    if os.WIFSIGNALED(st): return ('signal', os.WTERMSIG(st))
    if os.WEXITSTATUS(st) != 0 or not data: return ('exit', os.WEXITSTATUS(st))
    return ('ok', eval(data.decode()))

def native_flat(lib, ob, V):
    fn, spec, io, ref, assume, inputs = prep(ob, V)
    def call():
        ret, outs = hlib.spec_native(lib, fn, spec)
        return io(None, None, ret, outs)
    r = _fork_call(call)
    if r[0] == 'ok': nat = r[1]
    elif r[0] == 'exit' and r[1] == 1: nat = dict(ok=0)
    else: nat = ('crash', r[0], str(r[1]))
    cases, _ = refexec.explore(ref)
    s = z3.Solver(); s.check()
    return nat, sesslib.concretize(s.model(), cases[0][1])

def replay(lib, ob, cex):
    if ob['kind'] == 'mono':
        cob = mono_ob(ob)
        outs = []
        for fl in (cex['flagsA'], cex['flagsB']):
            c2 = dict(cex); c2['flags'] = fl
            V = base.concrete_values(c2)
            req, S, inputs, _ = base.build_concrete(cob, V, cex['script'])
            rep = sesslib.native_call(lib, req, 0, oracle=cex.get('_oracle', []))
            outs.append(base.impl_outcome_from(rep, 0))
        bad = outs[1].get('ok') and refexec.differs(outs[0], outs[1]) is not False
        return bool(bad), 'native: under A=%#x: %s ; under B=%#x: %s' % (cex['flagsA'], sesslib.short(outs[0], 200), cex['flagsB'], sesslib.short(outs[1], 200))
    V = dict(cex); 
    for i, c in enumerate(cex.get('chars', [])): V['c%d' % i] = c
    nat, ro = native_flat(lib, ob, V)
    return refexec.differs(nat, ro) is not False, 'native: %s | reference: %s' % (sesslib.short(nat), sesslib.short(ro))

def validate(E, lib):
    n = 0
    for ob in [o for o in obligations('quick', 0) if o['kind'] in ('get', 'parse', 'modify', 'std', 'string')][:60]:
        V = dict(in_flags=0x1234)
        fn, spec, io, ref, assume, inputs = prep(ob, V)
        nat, _ = native_flat(lib, ob, V)
        runs = hlib.spec_engine(E, fn, spec)
        if len(runs) != 1: raise EncoderMismatch('engine forked on concrete input %s' % ob['name'])
        eng = io(E, runs[0][0], runs[0][1], runs[0][2])
        if refexec.differs(eng, nat) is not False: raise EncoderMismatch('engine %s != native %s on %s' % (eng, nat, ob['name']))
        n += 1
    return n + base.validate(E, lib)
