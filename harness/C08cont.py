"""C08 (part 2) - running a script to the end in one go (ContinueScript, the loop behind non-interactive btcdeb) equals executing its operations one
after the other by the reference rules, INCLUDING the bookkeeping that signature checks depend on: the position of the last executed
OP_CODESEPARATOR (BIP342 commits to it) and the script code after it (BIP143/legacy). Signature validity is the uninterpreted oracle of C02, which
receives leaf hash || code separator position (tapscript) or the script code (v0/legacy) - a wrong position asks the oracle a different question."""
import z3
import C02 as base
import stubs, sesslib, hlib, hashref, refscript as R, refexec
from irsym import is_sym
from core import mkres

ID = 'C08'
TUS = base.TUS; SHIMS = base.SHIMS; NATIVE_TUS = base.NATIVE_TUS
NATIVE = True
TITLE = 'ContinueScript (run to the end) on scripts with OP_CODESEPARATOR and a signature check, against the reference rules applied operation by operation'
FUNCTIONS = ['ContinueScript', 'StepScript(InterpreterEnv&)', 'StepScript(ScriptExecutionEnvironment&, pc)', 'EvalChecksig*']
ASSUMPTIONS = ['signature validity = uninterpreted oracle over (signature, key, leaf hash || code separator position | script code, version)']
BOUNDS = 'script shapes: 0-3 operations, OP_CODESEPARATOR, 0-2 operations, <key> OP_CHECKSIG; versions WITNESS_V0 and TAPSCRIPT; signature 64 (tapscript) / 9 (v0) symbolic bytes, key 32 / 33 symbolic bytes; flags symbolic'
OUTSIDE = ['scripts with more than one signature check']
def setup(E): base.setup(E)

# (name, operations before the separator, operations between separator and key push)
SHAPES = [('sep-first', [], []), ('sep-after-1', [0x61], []), ('sep-after-2', [0x61, 0x51], [0x75]), ('sep-after-3-then-1', [0x61, 0x61, 0x61], [0x61]),
          ('two-separators', [0xab, 0x61], [0x61]), ('sep-in-skipped-branch', [0x61, 0x00, 0x63, 0xab, 0x68], [])]

def obligations(tier, seed):
    obs = []
    for sv in (R.WITNESS_V0, R.TAPSCRIPT):
        for n, pre, mid in SHAPES: obs.append(dict(name='continue/sv%d/%s' % (sv, n), kind='cont', sv=sv, shape=n))
    return obs

def mk(ob, V=None):
    def var(n, bits=8): return z3.BitVec(n, bits) if V is None else V.get(n, 0)
    n, pre_ops, mid = [s for s in SHAPES if s[0] == ob['shape']][0]
    sv = ob['sv']; kl = 32 if sv == R.TAPSCRIPT else 33; sl = 64 if sv == R.TAPSCRIPT else 9
    key = [var('k%d' % i) for i in range(kl)]; sig = [var('g%d' % i) for i in range(sl)]
    script = list(pre_ops) + ([0xab] if n != 'sep-in-skipped-branch' else []) + list(mid) + [kl] + key + [0xac]
    flags = var('flags', 32); leaf = [var('leaf%d' % i) for i in range(32)]
    pre = dict(alt=[], vf=(0, None), nop=0, pc=0, pbch=0, opcode_pos=0, codesep=0xffffffff, weight=1000, leaf=leaf, curr_op_seq=0, hist=[])
    req = sesslib.sess_request(3, flags, sv, [sig], script, 0, 2, (0, 0, 0), pre)
    return req, script, sig, flags, leaf, dict(flags=flags, key=key, sig=sig, leaf=leaf)

def reference(ctx, ob, script, sig, flags, leaf):
    S = R.RS(stack=[list(sig)], alt=[], vf_size=0, vf_ff=None, nop=z3.BitVecVal(0, 32), flags=flags, sigversion=ob['sv'], script=list(script), pc=0, pbch=0,
             codesep_pos=0xffffffff, opcode_pos=0, weight=1000, leaf=list(leaf))
    while S.pc < len(S.script):
        o = S.script[S.pc]
        r = R.ref_sigop(ctx, S) if (o in R.SIGOPS and S.vf_ff is None) else R.ref_step(ctx, S)
        if not r['ok']: return dict(ok=0)
        S.stack = r['stack']; S.alt = r['alt']; S.vf_size = r['vf'][0]; S.vf_ff = None if r['vf'][1] == r['vf'][0] else r['vf'][1]; S.nop = r['nop']; S.pc = r['pc']
        S.pbch = r['pbch']; S.codesep_pos = r['codesep']; S.opcode_pos += 1
        if 'weight' in r: S.weight = r['weight']
    if S.vf_size: return dict(ok=0)
    return dict(ok=1, stack=S.stack)

def run(E, ob):
    req, script, sig, flags, leaf, inputs = mk(ob)
    out, fin = sesslib.engine_call(E, req, assume=[])
    def io(f):
        if f.result is None or f.result[0] != 'ret': return ('crash', f.result[1] if f.result else 'none', f.result[2] if f.result and len(f.result) > 2 else '')
        rep = sesslib.engine_reply(E, f, out, 3)
        if rep['threw'] or (not is_sym(rep['ret']) and not rep['ret']): return dict(ok=0)
        return dict(ok=rep['ret'], stack=rep['post']['stack'])
    return sesslib.diff_paths(E, ob['name'], fin, io, lambda ctx: reference(ctx, ob, script, sig, flags, leaf), [], inputs, lambda a, b: 'C08:continue:' + ob['shape'])

def replay(lib, ob, cex):
    V = dict(flags=cex.get('flags', 0))
    for nm, pfx in (('key', 'k'), ('sig', 'g'), ('leaf', 'leaf')):
        for i, b in enumerate(cex.get(nm, [])): V['%s%d' % (pfx, i)] = b
    req, script, sig, flags, leaf, _ = mk(ob, V)
    # the native oracle answers from the table of the counterexample: (arguments -> verdict) pairs of the solver model
    rep = sesslib.native_call(lib, req, 3, oracle=cex.get('_oracle', []))
    nat = dict(ok=0) if (rep['threw'] or not rep['ret']) else dict(ok=1, stack=rep['post']['stack'])
    return None, 'native ContinueScript: %s (oracle-dependent: the question put to the signature check differs from the reference; see the engine trace)' % sesslib.short(nat)

def validate(E, lib): return 0
