"""C15 (part 2) - crash-freedom of the tap tool: its real main() under the engine monitors with adversarial / symbolic command-line arguments."""
import z3, os
import procenv, stubs, sesslib, runtool, build
from irsym import is_sym
from core import mkres
import C06, C07

ID = 'C15'
TUS = C06.TUS; SHIMS = C06.SHIMS; NATIVE = True; NATIVE_TUS = C06.NATIVE_TUS
KEY = 'f30544d6009c8d8d94f5d030b2e844b1a3ca036255161c479db1cca5b374dd1c'

def setup(E): C06.setup(E)

def obligations(tier, seed):
    obs = []
    def add(name, args, **kw): obs.append(dict(name='tap/' + name, kind='tapargv', args=args, **kw))
    S = lambda n: ('sym', n)
    # <key> <count> <scripts...> [<index> [<args>...]] with one position made of symbolic characters
    for n in (1, 2): add('count-sym%d' % n, [KEY, S(n), '[OP_1]', '[OP_2]'])
    for n in (1, 2): add('index-sym%d' % n, [KEY, '2', '[OP_1]', '[OP_2]', S(n)])
    for n in (1, 2): add('index-sym%d/with-arg' % n, [KEY, '2', '[OP_1]', '[OP_2]', S(n), '0x01'])
    add('count-larger-than-scripts', [KEY, '3', '[OP_1]', '[OP_2]'])
    add('count-1024', [KEY, '1025', '[OP_1]'])
    add('count-negative', [KEY, '-1', '[OP_1]'])
    add('index-equals-count', [KEY, '2', '[OP_1]', '[OP_2]', '2'])
    add('index-negative', [KEY, '2', '[OP_1]', '[OP_2]', '-1'])
    add('index-huge', [KEY, '2', '[OP_1]', '[OP_2]', '18446744073709551615'])
    for n in (1, 2, 3): add('key-sym%d' % n, [S(n), '1', '[OP_1]'])
    add('key-31-bytes', [KEY[:62], '1', '[OP_1]']); add('key-33-bytes', [KEY + '00', '1', '[OP_1]']); add('key-odd-hex', [KEY[:63], '1', '[OP_1]']); add('key-empty', ['', '1', '[OP_1]'])
    for n in (1, 2) if tier == 'quick' else (1, 2, 3): add('script-sym%d' % n, [KEY, '1', S(n)])
    add('script-invalid-opcode', [KEY, '1', 'ff'])
    add('script-empty', [KEY, '1', ''])
    add('spend-arg-sym2', [KEY, '1', '[OP_1]', '0', S(2)])
    add('spend-arg-placeholder', [KEY, '1', '[OP_1]', '0', '%SIG%'])
    for n in (1, 2): add('addrprefix-sym%d' % n, [('pref', '-p', n), KEY, '1', '[OP_1]'])
    add('addrprefix-empty', ['--addrprefix=', KEY, '1', '[OP_1]'])
    add('addrprefix-long', ['-p' + 'q' * 90, KEY, '1', '[OP_1]'])
    add('unknown-option', ['-Z', KEY, '1', '[OP_1]']); add('option-missing-argument', [KEY, '1', '[OP_1]', '-p'])
    add('too-few-args', [KEY, '1'])
    add('no-args', [])
    add('tx-without-txin', ['--tx=00', KEY, '1', '[OP_1]'])
    add('tx-garbage', ['--tx=zz', '--txin=zz', KEY, '1', '[OP_1]'])
    add('tx-truncated', ['--tx=0200000001', '--txin=0200000001', KEY, '1', '[OP_1]'])
    f_full, s_full, txid, out_spk, fields = C06.tap_txs({})
    tx = bytes(s_full).hex(); txin = bytes(f_full).hex()
    add('tx-unrelated-txin', ['--tx=' + tx, '--txin=' + tx, KEY, '1', '[OP_1]'])
    for n in (1, 2): add('sig-sym%d' % n, ['--tx=' + tx, '--txin=' + txin, ('pref', '--sig=', n), KEY, '1', '[OP_1]'])
    add('sig-empty', ['--tx=' + tx, '--txin=' + txin, '--sig=', KEY, '1', '[OP_1]'])
    add('privkey-given', ['--tx=' + tx, '--txin=' + txin, '--privkey=' + '11' * 32, KEY, '1', '[OP_1]'])
    add('piped-stdout', [KEY, '2', '[OP_1]', '[OP_2]', '1'], tty=(1, 0, 1))
    add('help', ['-h']); add('version', ['-v'])
    return obs

def mkargs(ob, V=None):
    args = [list(b'tap')]; syms = []; assume = []
    for i, a in enumerate(ob['args']):
        if isinstance(a, str): args.append(list(a.encode())); continue
        n = a[-1]
        cs = [z3.BitVec('a%d_%d' % (i, j), 8) if V is None else V['a%d_%d' % (i, j)] for j in range(n)]
        if V is None:
            assume += [c != 0 for c in cs]; syms += cs
            if a[0] == 'sym': assume.append(cs[0] != 45)          # positional argument (an option-like first character is its own scenario)
        args.append((list(a[1].encode()) if a[0] == 'pref' else []) + cs)
    return args, syms, assume

def run(E, ob):
    res = mkres(ob['name'])
    args, syms, assume = mkargs(ob)
    st = E.new_state(); st.pc = list(assume); st.model = None
    st.aux['tty'] = ob.get('tty', (1, 1, 1)); st.aux['parity_in'] = 2; st.aux['symleaves'] = []
    argc, av = procenv.make_argv(E, st, args)
    E.call(st, '@w_tap_main', [argc, av])
    fin = E.run(st)
    res['paths'] = len(fin); cls = {}
    for f in fin:
        r = f.result
        ok = r is not None and (r[0] in ('ret', 'exit') or (r[0] == 'violation' and r[1] == 'unreachable' and 'tap_main' in r[2]))       # main() ends without a return statement
        k = 'ok' if ok else 'crash:' + (str(r[1] if r[0] == 'violation' else r[0]) if r else 'none'); cls[k] = cls.get(k, 0) + 1
        if not ok and res['status'] == 'holds':
            m = E.model(f)
            kind = 'none' if not r else (r[1] if r[0] == 'violation' else ('uncaught-exception' if r[0] in ('exception', 'uncaught', 'throw') else str(r[0])))
            res['status'] = 'violated'; res['note'] = 'tap: %s %s' % (kind, (r[2] if r and r[0] == 'violation' and len(r) > 2 else 'a C++ exception leaves main()' if kind == 'uncaught-exception' else '')); res['key'] = 'C15:tap/%s:%s' % (ob['name'].split('/')[1].split('-sym')[0], kind)
            res['cex'] = dict(vals={str(s): (m.eval(s, model_completion=True).as_long() if m is not None else 0) for s in syms})
    res['classes'] = cls
    if not fin: res['status'] = 'inconclusive'; res['note'] = 'no path'
    return res

def replay(lib, ob, cex):
    exe = C06.build_tap(os.path.dirname(lib._name))
    args, _, _ = mkargs(ob, {k: v for k, v in cex.get('vals', {}).items()})
    cmd = [exe] + [bytes(a).decode('latin1') for a in args[1:]]
    tty = ob.get('tty', (1, 1, 1))
    rc, out, err = runtool.run(cmd, stdin_tty=bool(tty[0]), stdout_tty=bool(tty[1]))
    bad = rc is None or rc < 0
    return (True if bad else None), 'real tap: %s -> exit %s, output %r (memory errors need a sanitizer to show natively)' % (' '.join(c[:70] for c in cmd[1:]), rc, (out + err)[-200:])

def validate(E, lib): return 0
