"""Request/reply (de)serialisation for shims/sess.cpp, usable both on engine memory (bytes may be z3 terms) and on
native ctypes buffers (concrete), plus the common 'one-step differential' obligation runner."""
import z3, ctypes, time
from irsym import is_sym, bv, simp, Unsupported
import refexec
from core import mkres

class Req:
    def __init__(s): s.b = []
    def u32(s, v):
        if is_sym(v):
            if v.size() != 32: v = z3.ZeroExt(32 - v.size(), v) if v.size() < 32 else z3.Extract(31, 0, v)
            s.b += [simp(z3.Extract(8 * i + 7, 8 * i, v)) for i in range(4)]
        else: s.b += list((v & 0xffffffff).to_bytes(4, 'little'))
        return s
    def u64(s, v):
        if is_sym(v): s.b += [simp(z3.Extract(8 * i + 7, 8 * i, v)) for i in range(8)]
        else: s.b += list((v & 0xffffffffffffffff).to_bytes(8, 'little'))
        return s
    def bytes(s, bs): s.u32(len(bs)); s.b += list(bs); return s
    def items(s, its):
        s.u32(len(its))
        for it in its: s.bytes(it)
        return s

class Rep:
    """reader over load(off, n) -> int | term"""
    def __init__(s, load, uniq=None): s.load = load; s.o = 0; s.uniq = uniq
    def u32(s): v = s.load(s.o, 4); s.o += 4; return v
    def u64(s): v = s.load(s.o, 8); s.o += 8; return v
    def cu32(s):
        v = s.u32()
        if is_sym(v):
            if s.uniq is None: raise Unsupported('symbolic length/count in reply')
            v = s.uniq(v)
        return v
    def bytes(s):
        n = s.cu32(); r = [s.load(s.o + i, 1) for i in range(n)]; s.o += n; return r
    def items(s): return [s.bytes() for _ in range(s.cu32())]

def sess_request(mode, flags, sigversion, stack, script, allow_disabled=0, checker=0, tx=(0, 0, 0), pre=None, tokens=None):
    """pre: dict with the arbitrary pre-state (None = state as constructed)"""
    r = Req()
    r.u32(mode).u32(flags).u32(sigversion).u32(allow_disabled).u32(checker).u32(tx[0]).u32(tx[1]).u32(tx[2])
    r.items(stack).bytes(script)
    if pre is None: r.u32(0)
    else:
        r.u32(1)
        r.items(pre.get('alt', []))
        vs, ff = pre.get('vf', (0, None)); r.u32(vs).u32(vs if ff is None else ff)
        r.u32(pre.get('nop', 0)).u32(pre.get('pc', 0)).u32(pre.get('pbch', 0)).u32(pre.get('opcode_pos', 0)).u32(pre.get('codesep', 0xffffffff))
        r.u64(pre.get('weight', 0)); r.bytes(pre.get('leaf', []))
        r.u32(pre.get('curr_op_seq', 0)).u32(pre.get('done', 0)).u32(pre.get('p2sh', 2))
        r.items(pre.get('p2shstack', [])); r.bytes(pre.get('successor', []))
        hist = pre.get('hist', [])
        r.u32(len(hist))
        for (hs, ha, hpc, hn) in hist: r.items(hs).items(ha).u32(hpc).u32(hn)
        mock = pre.get('mock', [])
        r.u32(len(mock))
        for (sig, key) in mock: r.bytes(sig).bytes(key)
    if tokens is not None:
        r.u32(len(tokens))
        for t in tokens: r.bytes(t)
    return r.b

def parse_dump(rp):
    d = {}
    d['err'] = rp.u32(); d['stack'] = rp.items(); d['alt'] = rp.items()
    vs = rp.cu32(); ff = rp.cu32(); d['vf'] = (vs, ff)
    d['nop'] = rp.u32(); d['script'] = rp.bytes(); d['pc'] = rp.u32(); d['pbch'] = rp.u32(); d['pend'] = rp.u32()
    d['opcode_pos'] = rp.u32(); d['codesep'] = rp.u32(); d['weight'] = rp.u64(); d['curr_op_seq'] = rp.u32(); d['done'] = rp.u32()
    d['p2sh'] = rp.u32(); d['successor'] = rp.bytes()
    h4 = [rp.cu32() for _ in range(4)]; h7 = h4 + [rp.cu32() for _ in range(3)]
    present = sorted(set(x for x in h7 if x != 0xffffffff))
    d['hist'] = present[0] if len(present) == 1 else (tuple(h7) if present else 0)          # all snapshot vectors that exist have this common length
    if h4[0] and h4[0] != 0xffffffff:
        d['hist_top'] = dict(stack=rp.items(), alt=rp.items(), pc=rp.u32(), nop=rp.u32())
        for k_ in ('pc', 'nop'):
            if not is_sym(d['hist_top'][k_]) and d['hist_top'][k_] == 0xffffffff: d['hist_top'][k_] = '*'        # that snapshot vector does not exist in this tree
    d['tce'] = rp.u32()
    return d

def parse_reply(rp, mode):
    out = dict(operational=rp.u32(), ctor_err=rp.u32(), ctor_done=rp.u32(), ctor_p2sh=rp.u32())
    if mode in (0, 1, 3, 4, 6, 8):
        out['ret'] = rp.u32(); out['threw'] = rp.u32(); out['post'] = parse_dump(rp)
    elif mode == 2:
        out['pre'] = parse_dump(rp); out['ret'] = rp.u32(); out['threw'] = rp.u32(); out['post'] = parse_dump(rp)
        if not is_sym(out['ret']) and out['ret']:
            out['rew_ret'] = rp.u32(); out['rew'] = parse_dump(rp)
    elif mode == 5:
        out['ret'] = rp.u32(); out['threw'] = rp.u32(); out['post'] = parse_dump(rp)
        if not is_sym(out['ret']) and out['ret']:
            out['rew_ret'] = rp.u32(); out['rew'] = parse_dump(rp)
    elif mode == 7:
        out['rew_ret'] = rp.u32(); out['rew'] = parse_dump(rp)
    return out

OUTCAP = 1 << 16

def engine_call(E, req_bytes, outcap=OUTCAP, fn='@w_sess', extra_args=(), assume=()):
    """place the request in engine memory, run the shim symbolically; returns (out_addr, final states)"""
    st = E.new_state(); st.pc = list(assume); st.model = None
    a = E.alloc(st, len(req_bytes) + 8, 'heap')
    for i, b in enumerate(req_bytes): st.mem[a + i] = b
    out = E.alloc(st, outcap, 'heap')
    E.call(st, fn, [a, out] + list(extra_args))
    fin = E.run(st)
    return out, fin

def engine_reply(E, f, out, mode):
    def uniq(term):
        vals = E.concretize(f, term, 'reply length', limit=2)
        if len(vals) != 1: raise Unsupported('length/count in reply is not unique on this path (shape must be concrete per path)')
        return vals[0]
    rp = Rep(lambda off, n: E.load(f, out + off, n), uniq)
    return parse_reply(rp, mode)

_ORACLE_KEEP = []
def set_native_oracle(lib, table):
    """table: list of [[kind, a, b, c, sv], result] from a counterexample; unknown queries answer 0"""
    T = {}
    for (k, a, b, c, sv), r in (table or []): T[(k, bytes(a), bytes(b), bytes(c), sv)] = r
    CB = ctypes.CFUNCTYPE(ctypes.c_int, ctypes.c_int, ctypes.POINTER(ctypes.c_ubyte), ctypes.c_uint, ctypes.POINTER(ctypes.c_ubyte), ctypes.c_uint, ctypes.POINTER(ctypes.c_ubyte), ctypes.c_uint, ctypes.c_uint)
    def cb(kind, a, al, b, bl, c, cl, sv):
        return T.get((kind, bytes(a[:al]) if al else b'', bytes(b[:bl]) if bl else b'', bytes(c[:cl]) if cl else b'', sv), 0)
    f = CB(cb); _ORACLE_KEEP.append(f)
    lib.vf_set_oracle(f)

def native_call(lib, req_bytes, mode, outcap=OUTCAP, oracle=None):
    assert not any(is_sym(b) for b in req_bytes)
    if oracle is not None: set_native_oracle(lib, oracle)
    ib = (ctypes.c_ubyte * (len(req_bytes) + 8))(*req_bytes)
    ob = (ctypes.c_ubyte * outcap)()
    lib.w_sess.restype = ctypes.c_uint
    n = lib.w_sess(ib, ob)
    raw = bytes(ob[:n])
    rp = Rep(lambda off, k: int.from_bytes(raw[off:off + k], 'little'))
    return parse_reply(rp, mode)

def concretize(model, x):
    """evaluate ints / terms / nested lists under a z3 model (unconstrained variables -> 0)"""
    if isinstance(x, (list, tuple)): return [concretize(model, y) for y in x]
    if isinstance(x, dict): return {k: concretize(model, v) for k, v in x.items()}
    if is_sym(x):
        v = model.eval(x, model_completion=True)
        if z3.is_bool(v): return 1 if z3.is_true(v) else 0
        return v.as_long()
    return x

def outcome_class(o):
    if isinstance(o, tuple): return str(o[0]) + ':' + str(o[1])
    if is_sym(o.get('ok')): return 'ok:sym'
    if o.get('ok'): return 'ok'
    e = o.get('err')
    return 'err:' + (str(e) if not is_sym(e) else 'sym')

def diff_paths(E, name, finals, impl_outcome, ref_fn, assume, inputs, key_fn=None, timeout_ms=None, witness_classes=None, assume_in_pc=True, ground=None, crash_everywhere=False):
    """decide an obligation: every terminated implementation path against the guarded reference outcomes.
    impl_outcome(f) -> comparable structure; ref_fn(ctx) -> comparable structure; inputs: dict name -> term/list (for counterexamples)"""
    timeout_ms = timeout_ms or E.query_timeout_ms
    t0 = time.time()
    cases, nq = refexec.explore(ref_fn, assume, timeout_ms)
    res = mkres(name, paths=len(finals), ref_cases=len(cases))
    res['queries'] += nq
    V = refexec.Verdict()
    classes = {}
    for f in finals:
        if f.result is None or f.result[0] == 'violation':
            k = f.result[1] if f.result else 'none'; msg = f.result[2] if f.result else ''
            io = ('crash', k, msg)
        elif f.result[0] == 'uncaught':
            io = ('crash', 'uncaught-exception', '')
        else:
            io = impl_outcome(f)
        c = outcome_class(io); classes[c] = classes.get(c, 0) + 1
        if V.status == 'violated': continue
        def on_sat(m, io_, ro_, f=f):
            res['cex'] = concretize(m, inputs)
            if f.aux.get('oracle'): res['cex']['_oracle'] = concretize(m, [[list(a[0:1]) + [list(a[1]), list(a[2]), list(a[3]), a[4]], v] for a, v in f.aux['oracle']])
            res['note'] = 'implementation: %s | reference: %s' % (short(concretize(m, io_)), short(concretize(m, ro_)))
            res['key'] = key_fn(concretize(m, io_), concretize(m, ro_)) if key_fn else None
        refexec.decide(list(f.pc) if assume_in_pc else list(assume) + list(f.pc), io, cases, V, timeout_ms, on_sat, ground, crash_everywhere)
    res['classes'] = classes
    res['status'] = V.status; res['queries'] += V.queries; res['sat'] = V.sat; res['unsat'] = V.unsat; res['unknown'] = V.unknown; res['solver_s'] += V.time
    if V.status == 'inconclusive': res['note'] = 'solver returned unknown on a post-condition query'
    if V.status == 'holds':
        if not finals: res['status'] = 'inconclusive'; res['note'] = 'no implementation path terminated (vacuous)'
        elif not refexec.covers(cases, assume, timeout_ms): res['status'] = 'inconclusive'; res['note'] = 'reference cases do not cover the assumed input space'
        elif all(isinstance(ro, tuple) and ro and ro[0] == 'ref_abort' for _, ro in cases): res['status'] = 'holds'; res['note'] = 'outside reference domain (skipped): ' + cases[0][1][1]
    return res

def short(x, n=400):
    s = repr(x)
    return s if len(s) <= n else s[:n] + '...'
