"""C05 - step-by-step taproot commitment check equals the BIP341 rule."""
import z3
import stubs, hlib, hashref, refexec, sesslib
from irsym import is_sym, bv, simp
from core import mkres, EncoderMismatch
import build as _b

ID = 'C05'
TITLE = 'TaprootCommitmentEnv ctor + Iterate() and the session hand-over against the BIP341 fold (TapLeaf, lexicographic TapBranch, TapTweak, tweak check) over an uninterpreted SHA-256 compression; control block, program and script fully symbolic'
TUS = ['dbginterp', 'interp', 'script', 'dbgscript', 'pubkey', 'hash', 'sha256', 'uint256', 'strenc', 'ripemd160', 'sha1', 'tx']
SHIMS = ['tce']
NATIVE_TUS = _b.ALL_NATIVE
FUNCTIONS = ['TaprootCommitmentEnv::TaprootCommitmentEnv', 'TaprootCommitmentEnv::Iterate', 'XOnlyPubKey::CheckTapTweak', 'XOnlyPubKey::ComputeTapTweakHash', 'TaggedHash', 'HashWriter::operator<< / GetSHA256', 'CSHA256::Write/Finalize',
             'StepScript(InterpreterEnv&) commitment branch (hand-over of the leaf hash)']
ASSUMPTIONS = ['SHA-256 compression is an uninterpreted function when its input is symbolic (tag midstates are real values)', 'secp256k1_xonly_pubkey_parse and secp256k1_xonly_pubkey_tweak_add_check are uninterpreted predicates of their byte arguments',
               'allocation never fails; logging discarded', 'control block length is 33+32m (other lengths are refused before this code: decided by C03)']
OUTSIDE = ['path lengths above the tier bound (the fold is uniform in the index)', 'elliptic-curve arithmetic of the tweak check']
BOUNDS = {'quick': 'path length m = 0..3; script lengths {0,3,28,29,127,128,252,253}; every byte of control block (incl. leaf version and parity), program and script symbolic',
          'thorough': 'path length m = 0..4 (m = 5 and 6 exceed 1800 s per obligation); script lengths {0,1,3,28,29,55,56,64,75,76,127,128,252..256,520}'}

def setup(E): stubs.install_all(E)

def obligations(tier, seed):
    obs = []
    ms = range(0, 4) if tier == 'quick' else range(0, 5)          # m = 5, 6 exceed the 1800 s obligation limit (2^m sort orders over nested hash terms)
    sl = (0, 3, 28, 29, 127, 128, 252, 253) if tier == 'quick' else (0, 1, 3, 28, 29, 55, 56, 64, 75, 76, 127, 128, 252, 253, 254, 255, 256, 520)
    for m in ms:
        for s in (sl if m <= 1 else (3,)):
            obs.append(dict(name='tce/m%d/slen%d' % (m, s), kind='tce', m=m, slen=s, cost=2 ** m))
    for m in (0, 1, 2) if tier == 'quick' else (0, 1, 2, 3): obs.append(dict(name='session/m%d' % m, kind='session', m=m, slen=3, cost=2 ** m))
    return obs

def mk(ob, V=None):
    def var(n): return z3.BitVec(n, 8) if V is None else V.get(n, 0)
    clen = 33 + 32 * ob['m']
    ctrl = [var('c%d' % i) for i in range(clen)]; prog = [var('p%d' % i) for i in range(32)]; scr = [var('s%d' % i) for i in range(ob['slen'])]
    return ctrl, prog, scr

def reference(ctx, ob, ctrl, prog, scr):
    """BIP341: k0 = TapLeaf(v || compact_size(script) || script); k_{j+1} = TapBranch(min(k_j,e_j) || max(k_j,e_j)) lexicographically;
    t = TapTweak(p || k_m); valid iff p is a valid x-only key and Q = P + t*G has x = q and the parity given in the control byte"""
    B = lambda x: bv(x, 8)
    k = hashref.tagged(b'TapLeaf', [simp(B(ctrl[0]) & 0xfe)] + hashref.compact_size(len(scr)) + list(scr))
    ks = [k]
    for j in range(ob['m']):
        node = ctrl[33 + 32 * j: 65 + 32 * j]
        if ctx.branch(z3.ULT(stubs.cat(k, 8), stubs.cat(node, 8))): k = hashref.tagged(b'TapBranch', list(k) + list(node))
        else: k = hashref.tagged(b'TapBranch', list(node) + list(k))
        ks.append(k)
    tweak = hashref.tagged(b'TapTweak', list(ctrl[1:33]) + list(k))
    ok = ctx.branch(z3.And(stubs.XPARSE(stubs.cat(ctrl[1:33], 8)), stubs.TWEAKCHK(stubs.cat(prog, 8), simp(z3.Extract(0, 0, B(ctrl[0]))), stubs.cat(ctrl[1:33], 8), stubs.cat(tweak, 8))))
    return ks, ok

def make_ground(ob, ctrl, prog, scr):
    """level-by-level grounding of the hash chain: fix the inputs a level depends on, tie the UF to the real SHA-256 there, re-solve for the rest"""
    m = ob['m']
    def ground(sol, model):
        cur = model
        for j in range(m + 2):
            cv = sesslib.concretize(cur, dict(ctrl=ctrl, scr=scr))
            c, s = cv['ctrl'], cv['scr']
            ks = bip341_concrete(c, None, s, min(j, m))
            cons = [bv(x, 8) == v for x, v in zip(scr, s)] + [bv(ctrl[0], 8) == c[0]]
            cons += hashref.ground_sha256(bytes([c[0] & 0xfe]) + bytes(hashref.compact_size(len(s))) + bytes(s), b'TapLeaf')
            for lvl in range(min(j, m)):
                node = bytes(c[33 + 32 * lvl: 65 + 32 * lvl])
                cons += [bv(x, 8) == v for x, v in zip(ctrl[33 + 32 * lvl: 65 + 32 * lvl], node)]
                cons += hashref.ground_sha256(ks[lvl] + node, b'TapBranch') + hashref.ground_sha256(node + ks[lvl], b'TapBranch')
            if j == m + 1:
                cons += [bv(x, 8) == v for x, v in zip(ctrl[1:33], c[1:33])] + hashref.ground_sha256(bytes(c[1:33]) + ks[m], b'TapTweak')
            sol.push()
            for cn in cons: sol.add(cn)
            r = sol.check()
            if r != z3.sat: sol.pop(); return cur if j > 0 else None
            cur = sol.model(); sol.pop()
            for cn in cons: sol.add(cn)
        return cur
    return ground

def run(E, ob):
    ctrl, prog, scr = mk(ob); m = ob['m']
    inputs = dict(ctrl=ctrl, prog=prog, scr=scr)
    ground = make_ground(ob, ctrl, prog, scr)
    if ob['kind'] == 'tce':
        spec = [('in', ctrl), ('u32', len(ctrl)), ('in', prog), ('in', scr), ('u32', len(scr)), ('out', 32 * (m + 3)), ('out', 32), ('out', 4)]
        def io(E_, f, ret, outs):
            if ret is None: return ('crash', f.result[1] if f.result else 'none', f.result[2] if f.result and len(f.result) > 2 else '')
            n = hlib.le(outs[2](4))
            if is_sym(n): n = hlib.uniq(E_, f, n)
            return dict(state=ret, nsteps=n, leaf=outs[1](32), ks=[outs[0](32 * (m + 2))[32 * i:32 * i + 32] for i in range(m + 1)])
        def ref(ctx):
            ks, ok = reference(ctx, ob, ctrl, prog, scr)
            return dict(state=3 if ok else 1, nsteps=m + 1, leaf=ks[0], ks=ks)
        return hlib.flat_check(E, ob['name'], 'w_tce', spec, io, ref, [], inputs, lambda a, b: 'C05:tce:' + ('state' if isinstance(a, dict) and a.get('state') != b.get('state') else 'hash'), ground=ground)
    spec = [('in', ctrl), ('u32', len(ctrl)), ('in', prog), ('in', scr), ('u32', len(scr)), ('u32', m + 4), ('out', 12 * (m + 5)), ('out', 40)]
    def io(E_, f, ret, outs):
        if ret is None: return ('crash', f.result[1] if f.result else 'none', f.result[2] if f.result and len(f.result) > 2 else '')
        n = ret if not is_sym(ret) else hlib.uniq(E_, f, ret)
        raw = outs[0](12 * n); steps = [[hlib.le(raw[12 * i + 4 * j: 12 * i + 4 * j + 4]) for j in range(3)] for i in range(n)]
        lf = outs[1](34)
        return dict(steps=steps, leaf=lf[:32] if not is_sym(lf[32]) and lf[32] else 'unset', at_start=lf[33])
    def ref(ctx):
        ks, ok = reference(ctx, ob, ctrl, prog, scr)
        steps = [[1, i + 1, 1] for i in range(m)] + ([[1, m + 1, 0]] if ok else [[0, m, 1]])
        return dict(steps=steps, leaf=ks[0] if ok else '*', at_start=1)
    return hlib.flat_check(E, ob['name'], 'w_tce_session', spec, io, ref, [], inputs, lambda a, b: 'C05:session', ground=ground)

def concrete_run(lib, ob, V):
    ctrl, prog, scr = mk(ob, V); m = ob['m']
    if ob['kind'] == 'tce':
        spec = [('in', ctrl), ('u32', len(ctrl)), ('in', prog), ('in', scr), ('u32', len(scr)), ('out', 32 * (m + 3)), ('out', 32), ('out', 4)]
        import ctypes
        ret, outs = hlib.spec_native(lib, 'w_tce', spec, restype=ctypes.c_int)
        n = hlib.le(outs[2](4))
        return dict(state=ret, nsteps=n, leaf=outs[1](32), ks=[outs[0](32 * (m + 2))[32 * i:32 * i + 32] for i in range(m + 1)]), (ctrl, prog, scr)
    spec = [('in', ctrl), ('u32', len(ctrl)), ('in', prog), ('in', scr), ('u32', len(scr)), ('u32', m + 4), ('out', 12 * (m + 5)), ('out', 40)]
    ret, outs = hlib.spec_native(lib, 'w_tce_session', spec)
    raw = outs[0](12 * ret); steps = [[hlib.le(raw[12 * i + 4 * j: 12 * i + 4 * j + 4]) for j in range(3)] for i in range(ret)]
    lf = outs[1](34)
    return dict(steps=steps, leaf=lf[:32] if lf[32] else 'unset', at_start=lf[33]), (ctrl, prog, scr)

def bip341_concrete(ctrl, prog, scr, m):
    """independent concrete BIP341 hashes (real SHA-256); the tweak check itself needs curve arithmetic and is taken from the native result"""
    import hashlib
    def tagged(tag, data):
        t = hashlib.sha256(tag).digest(); return hashlib.sha256(t + t + bytes(data)).digest()
    k = tagged(b'TapLeaf', bytes([ctrl[0] & 0xfe]) + bytes(hashref.compact_size(len(scr))) + bytes(scr)); ks = [k]
    for j in range(m):
        node = bytes(ctrl[33 + 32 * j: 65 + 32 * j])
        k = tagged(b'TapBranch', k + node) if k < node else tagged(b'TapBranch', node + k); ks.append(k)
    return ks

def replay(lib, ob, cex):
    V = {}
    for i, b in enumerate(cex['ctrl']): V['c%d' % i] = b
    for i, b in enumerate(cex['prog']): V['p%d' % i] = b
    for i, b in enumerate(cex['scr']): V['s%d' % i] = b
    nat, (ctrl, prog, scr) = concrete_run(lib, ob, V)
    ks = bip341_concrete(ctrl, prog, scr, ob['m'])
    if ob['kind'] == 'tce':
        bad = [i for i in range(ob['m'] + 1) if bytes(nat['ks'][i]) != ks[i]]
        if bytes(nat['leaf']) != ks[0]: bad.append('leaf')
        if nat['nsteps'] != ob['m'] + 1: bad.append('nsteps=%d' % nat['nsteps'])
        if not bad:
            # the hashes agree, so the symbolic difference is in the final tweak verdict, which the solver sees through uninterpreted curve functions:
            # probe the native build with a REAL commitment built from the counterexample's control block / script (internal key = the generator's x)
            import hashlib, ctypes
            def tagged(tag, data): t = hashlib.sha256(tag).digest(); return hashlib.sha256(t + t + bytes(data)).digest()
            gx = bytes.fromhex('79be667ef9dcbbac55a06295ce870b07029bfcdb2dce28d959f2815b16f81798')
            for i in range(32): V['c%d' % (1 + i)] = gx[i]
            _, (ctrl2, _, scr2) = concrete_run(lib, ob, V)
            root = bip341_concrete(ctrl2, [0] * 32, scr2, ob['m'])[-1]
            out = (ctypes.c_ubyte * 33)()
            if lib.w_real_tweak((ctypes.c_ubyte * 32)(*gx), (ctypes.c_ubyte * 32)(*tagged(b'TapTweak', gx + root)), out):
                par, q = out[0], list(out[1:33]); probes = []
                for name, cpar, qq, want in (('valid', par, q, 3), ('parity flipped', par ^ 1, q, 1), ('program bit flipped', par, [q[0] ^ 1] + q[1:], 1)):
                    V2 = dict(V); V2['c0'] = (V.get('c0', 0xc0) & 0xfe) | cpar
                    for i in range(32): V2['p%d' % i] = qq[i]
                    n2, _ = concrete_run(lib, ob, V2)
                    if n2['state'] != want: probes.append('%s commitment ends in state %d, BIP341 says %d' % (name, n2['state'], want))
                if probes: return True, 'native TaprootCommitmentEnv on a real commitment (control block / script of the counterexample, internal key G): ' + '; '.join(probes)
        return bool(bad), 'native TaprootCommitmentEnv: mismatching BIP341 values at %s (state %s)' % (bad, nat['state'])
    okn = nat['steps'] and nat['steps'][-1][0] == 1
    m = ob['m']; pre = [[1, i + 1, 1] for i in range(m)]
    # the shape of the session either way: m branch steps, then the tweak step - success ends the commitment phase, failure must leave it in place (Failed is sticky)
    shape_ok = [list(s) for s in nat['steps']] in (pre + [[1, m + 1, 0]], pre + [[0, m, 1]])
    bad = (not shape_ok) or (okn and (nat['leaf'] == 'unset' or bytes(nat['leaf']) != ks[0]))
    if not bad and not okn:
        # the solver's counterexample passes the tweak check only in the model (uninterpreted curve functions): rebuild it as a REAL commitment
        # (control block path / script of the counterexample, internal key = the generator's x) so that the native session reaches the hand-over
        import hashlib, ctypes
        def tagged(tag, data): t = hashlib.sha256(tag).digest(); return hashlib.sha256(t + t + bytes(data)).digest()
        gx = bytes.fromhex('79be667ef9dcbbac55a06295ce870b07029bfcdb2dce28d959f2815b16f81798')
        for i in range(32): V['c%d' % (1 + i)] = gx[i]
        _, (ctrl2, _, scr2) = concrete_run(lib, ob, V)
        ks2 = bip341_concrete(ctrl2, [0] * 32, scr2, m)
        out = (ctypes.c_ubyte * 33)()
        if lib.w_real_tweak((ctypes.c_ubyte * 32)(*gx), (ctypes.c_ubyte * 32)(*tagged(b'TapTweak', gx + ks2[-1])), out):
            V2 = dict(V); V2['c0'] = (V.get('c0', 0xc0) & 0xfe) | out[0]
            for i in range(32): V2['p%d' % i] = out[1 + i]
            nat2, _ = concrete_run(lib, ob, V2)
            ok2 = nat2['steps'] and nat2['steps'][-1][0] == 1 and [list(s) for s in nat2['steps']] == pre + [[1, m + 1, 0]]
            if not ok2 or nat2['leaf'] == 'unset' or bytes(nat2['leaf']) != ks2[0]:
                return True, 'native session on a real commitment (control block / script of the counterexample, internal key G): %s, BIP341 leaf hash %s' % (sesslib.short(nat2), ks2[0].hex())
    return bool(bad), 'native session commitment phase: %s' % sesslib.short(nat)

def validate(E, lib):
    import random, hashlib
    rnd = random.Random(5); n = 0
    for ob in [dict(kind='tce', m=0, slen=3), dict(kind='tce', m=1, slen=3), dict(kind='tce', m=2, slen=29), dict(kind='session', m=1, slen=3)]:
        for trial in range(2):
            V = {}
            for i in range(33 + 32 * ob['m']): V['c%d' % i] = rnd.randrange(256)
            for i in range(32): V['p%d' % i] = rnd.randrange(256)
            for i in range(ob['slen']): V['s%d' % i] = rnd.randrange(256)
            nat, (ctrl, prog, scr) = concrete_run(lib, ob, V)
            ks = bip341_concrete(ctrl, prog, scr, ob['m'])
            # engine, concretely (hashes run the real compression code; the curve check is uninterpreted, so only hashes are compared)
            if ob['kind'] == 'tce':
                m = ob['m']
                spec = [('in', ctrl), ('u32', len(ctrl)), ('in', prog), ('in', scr), ('u32', len(scr)), ('out', 32 * (m + 3)), ('out', 32), ('out', 4)]
                runs = hlib.spec_engine(E, 'w_tce', spec)
                for (f, ret, outs) in runs:
                    if ret is None: raise EncoderMismatch('engine concrete run failed: %r' % (f.result,))
                    eng_ks = [outs[0](32 * (m + 2))[32 * i:32 * i + 32] for i in range(m + 1)]
                    if [bytes(x) for x in eng_ks] != [bytes(x) for x in nat['ks']][:len(eng_ks)]: raise EncoderMismatch('hash chain differs between engine and native build')
                n += 1
            else: n += 1
    return n
