"""C03 - a --tx/--txin session reproduces consensus validation of that input: input selection and the per-output-type set-up."""
import z3
import stubs, hlib, hashref, refscript as R, refexec, sesslib
from irsym import is_sym, bv, simp
from core import mkres, EncoderMismatch
import build as _b
import C07

ID = 'C03'
TITLE = 'Instance::parse_input_transaction (selection / --select refusal) and Instance::configure_tx_txin + setup_environment per output type (legacy, P2WPKH, P2WSH, P2SH-wrapped, taproot key path, tapscript; annex; control block sizes) against the BIP16/141/143/341/342 set-up, all payload bytes symbolic, hashes over uninterpreted compression functions'
TUS = ['instance', 'value', 'tx', 'interp', 'script', 'dbginterp', 'dbgscript', 'strenc', 'pubkey', 'hash', 'sha256', 'ripemd160', 'sha1', 'uint256', 'base58', 'bech32', 'script_error']
SHIMS = ['spend']
NATIVE_TUS = _b.ALL_NATIVE + ['instance']
PARTS = ['C03end']
FUNCTIONS = ['Instance::parse_transaction', 'Instance::parse_input_transaction', 'Instance::configure_tx_txin', 'Instance::setup_environment', 'parse_tx', 'TaprootCommitmentEnv ctor (leaf hash)', 'Value::do_hash160/do_sha256', 'GetSerializeSize(witness stack)',
             'InterpreterEnv ctor', 'PrecomputedTransactionData::Init']
ASSUMPTIONS = ['hash compression functions uninterpreted on symbolic input', 'allocation never fails; diagnostics discarded', 'the per-step execution of the configured scripts is decided by C01/C02/C05, the script switches by C04/C10: this check decides the set-up they start from',
               'tx structure (counts, lengths) concrete per shape; every payload byte, amount, sequence, prevout symbolic']
OUTSIDE = ['more than 2 inputs / 2 outputs', 'witness items longer than 33 bytes except the 64/65-byte Schnorr signature', 'control blocks with more than 1 path node (C05 covers the fold)']
BOUNDS = 'selection: 1-2 inputs, prevout hashes symbolic, --select in {-1,0,1,2}; set-up: 9 spend shapes x {hash matches, hash differs (both explored symbolically)} x companion input with / without a witness of its own; control block sizes 0,1,2,31,32,33,34,64,65,66,33+32*128,33+32*129 (thorough: every size 0..99 and the sizes around 33+32*128); annex present/absent'

def setup(E):
    stubs.install_all(E)
    for n in ('_ZN15ECCVerifyHandleC1Ev', '_ZN15ECCVerifyHandleC2Ev', '_ZN15ECCVerifyHandleD1Ev', '_ZN15ECCVerifyHandleD2Ev'): E.stubs[n] = lambda E, st, fr, I, A: None
    E.stubs['_ZSt17iostream_categoryv'] = lambda E, st, fr, I, A: 0
    E.stubs.pop('_Z6HexStrB5cxx114SpanIKhE', None)          # witness items travel through their hex text: run the real HexStr

CS = hashref.compact_size
def ser_tx(ver, ins, outs, lock):
    """ins: (hash32, n4, scriptSig, seq4, witness list or None); outs: (value8, spk). returns (full, stripped)"""
    b_in = CS(len(ins)); b_out = CS(len(outs))
    for (h, n, ss, sq, w) in ins: b_in += list(h) + list(n) + CS(len(ss)) + list(ss) + list(sq)
    for (v, pk) in outs: b_out += list(v) + CS(len(pk)) + list(pk)
    stripped = list(ver) + b_in + b_out + list(lock)
    if any(w for (_, _, _, _, w) in ins):
        wb = []
        for (_, _, _, _, w) in ins:
            w = w or []
            wb += CS(len(w))
            for it in w: wb += CS(len(it)) + list(it)
        return list(ver) + [0, 1] + b_in + b_out + wb + list(lock), stripped
    return stripped, stripped

KINDS = ['legacy-p2pkh', 'legacy-bare', 'p2wpkh', 'p2wpkh-1item', 'p2wpkh-3items', 'p2wsh', 'p2sh-p2wpkh', 'p2sh-p2wsh', 'p2tr-key', 'p2tr-key-annex', 'p2tr-script-m0', 'p2tr-script-m1', 'p2tr-script-annex', 'p2tr-script-leafver',
         'witness-program-empty-witness']
CTRL_SIZES = [0, 1, 2, 31, 32, 33, 34, 64, 65, 66, 33 + 32 * 128, 33 + 32 * 129]

def obligations(tier, seed):
    obs = []
    for k in KINDS:
        for second in (0, 1): obs.append(dict(name='setup/%s/in%d' % (k, second), kind='setup', t=k, idx=second))
        if k in ('legacy-p2pkh', 'legacy-bare', 'p2wpkh', 'p2tr-key', 'p2tr-script-m0', 'witness-program-empty-witness'):
            for second in (0, 1): obs.append(dict(name='setup/%s/in%d/other-input-has-witness' % (k, second), kind='setup', t=k, idx=second, other_wit=1))
    for k in ('legacy-bare', 'legacy-p2pkh', 'p2wsh', 'p2tr-key'): obs.append(dict(name='setup/%s/in0/flags-symbolic' % k, kind='setup', t=k, idx=0, symflags=1))          # seed C09-4: setup_environment 'normalised' the flags
    for cs in (CTRL_SIZES if tier == 'quick' else sorted(set(list(range(0, 100)) + [33 + 32 * 127, 33 + 32 * 128 - 1, 33 + 32 * 128 + 1] + CTRL_SIZES))): obs.append(dict(name='setup/control-size/%d' % cs, kind='setup', t='p2tr-script-ctrl', idx=0, csize=cs))
    for nin in (1, 2):
        for sel in (-1, 0, 1, 2): obs.append(dict(name='select/nin%d/select%d' % (nin, sel), kind='select', nin=nin, sel=sel))
    return obs

def build(ob, V=None):
    """returns dict(tx, txin, idx, vout, expected(ctx) -> outcome, inputs, assume)"""
    sym = V is None
    def var(n, bits=8): return z3.BitVec(n, bits) if sym else V.get(n, 0)
    def bs(n, k): return [var('%s%d' % (n, i)) for i in range(k)]
    t = ob['t']; idx = ob['idx']
    val = bs('val', 8); assume = []
    sig = bs('sig', 9); pub = bs('pub', 33); h20 = bs('h', 20); h32 = bs('H', 32); scr = bs('scr', 3); item = bs('it', 2); ann = [0x50] + bs('an', 2); q32 = bs('q', 32); sch = bs('ss', 64)
    W = None; S = []; exp = None
    if sym: assume += [z3.And(z3.UGE(c, 0x51), z3.ULE(c, 0xb9)) for c in scr]      # the revealed script decodes into defined non-push opcodes (decoding itself is C01's domain)
    OK, REFUSED = 1, 0
    FLAGS = var('flags', 32) if ob.get('symflags') else 0x1fffdf          # the flag word handed to setup_environment must be the one the session runs under
    def base(sigver, script, successor, stack, pre, **kw):
        d = dict(ok=1, sigver=sigver, script=script, successor=successor, stack=stack, amount=hlib.le(val), preamble=pre, annex_present=0, annex_hash='*', leaf='*', weight='*', tce=0, tce_m=0,
                 env_ok=1, env_sigver=sigver, env_script=script, env_successor=successor, env_tce=0, env_flags=FLAGS)
        d.update(kw); return d
    if t == 'legacy-p2pkh':
        P = [0x76, 0xa9, 0x14] + h20 + [0x88, 0xac]; S = [9] + sig + [33] + pub
        exp = lambda ctx: base(R.BASE, S, P, [], 0)
    elif t == 'legacy-bare':
        P = [0x51]; S = []
        exp = lambda ctx: base(R.BASE, S, P, [], 0)
    elif t in ('p2wpkh', 'p2wpkh-1item', 'p2wpkh-3items'):
        P = [0x00, 0x14] + h20
        W = {'p2wpkh': [sig, pub], 'p2wpkh-1item': [pub], 'p2wpkh-3items': [item, sig, pub]}[t]
        def exp(ctx):
            if len(W) != 2: raise refexec.RefAbort('P2WPKH witness without exactly two items: invalid under BIP141; whether the tool refuses or shows the failing/unclean run is not prescribed')
            if not ctx.branch(R.items_equal(hashref.hash160(pub), h20)): return dict(ok=REFUSED)
            return base(R.WITNESS_V0, [0x76, 0xa9, 0x14] + h20 + [0x88, 0xac], [], [sig, pub], 1)
    elif t == 'p2wsh':
        P = [0x00, 0x20] + h32; W = [item, scr]
        def exp(ctx):
            if not ctx.branch(R.items_equal(hashref.sha256(scr), h32)): return dict(ok=REFUSED)
            return base(R.WITNESS_V0, scr, [], [item], 0)
    elif t == 'p2sh-p2wpkh':
        k20 = bs('k', 20); redeem = [0x00, 0x14] + k20
        P = [0xa9, 0x14] + h20 + [0x87]; S = [22] + redeem; W = [sig, pub]
        def exp(ctx):
            if not ctx.branch(R.items_equal(hashref.hash160(redeem), h20)): return dict(ok=REFUSED)
            if not ctx.branch(R.items_equal(hashref.hash160(pub), k20)): return dict(ok=REFUSED)
            return base(R.WITNESS_V0, [0x76, 0xa9, 0x14] + k20 + [0x88, 0xac], [], [sig, pub], 1)
    elif t == 'p2sh-p2wsh':
        redeem = [0x00, 0x20] + h32
        P = [0xa9, 0x14] + h20 + [0x87]; S = [34] + redeem; W = [item, scr]
        def exp(ctx):
            if not ctx.branch(R.items_equal(hashref.hash160(redeem), h20)): return dict(ok=REFUSED)
            if not ctx.branch(R.items_equal(hashref.sha256(scr), h32)): return dict(ok=REFUSED)
            return base(R.WITNESS_V0, scr, [], [item], 0)
    elif t in ('p2tr-key', 'p2tr-key-annex'):
        P = [0x51, 0x20] + q32; W = [sch] + ([ann] if t.endswith('annex') else [])
        def exp(ctx):
            d = base(R.TAPROOT, [0x20] + q32 + [0xac], [], [sch], 1)
            if t.endswith('annex'): d['annex_present'] = 1; d['annex_hash'] = hashref.sha256(CS(len(ann)) + ann)
            return d
    elif t.startswith('p2tr-script'):
        m = 1 if t == 'p2tr-script-m1' else 0
        csize = ob.get('csize', 33 + 32 * m)
        if csize > 100: ctrl = [var('c0')] + [0] * (csize - 1)
        else: ctrl = bs('c', csize)
        if t not in ('p2tr-script-leafver', 'p2tr-script-ctrl') and sym: assume.append((ctrl[0] & 0xfe) == 0xc0)
        if t == 'p2tr-script-leafver' and sym: assume.append((ctrl[0] & 0xfe) != 0xc0)
        if t == 'p2tr-script-ctrl' and sym and csize >= 1: assume.append((ctrl[0] & 0xfe) == 0xc0)
        P = [0x51, 0x20] + q32; W = [item, scr, ctrl] + ([ann] if t.endswith('annex') else [])
        def exp(ctx):
            if csize < 33 or csize > 33 + 32 * 128 or (csize - 33) % 32: return dict(ok=REFUSED)
            if t == 'p2tr-script-leafver': return dict(ok=REFUSED)          # unknown leaf version: not executed (refused)
            wit_size = len(CS(len(W))) + sum(len(CS(len(it))) + len(it) for it in W)
            leaf = hashref.tagged(b'TapLeaf', [z3.simplify(R.B(ctrl[0]) & 0xfe)] + CS(len(scr)) + scr)
            d = base(R.TAPSCRIPT, scr, [], [item], 0, leaf=leaf, weight=wit_size + 50, tce=1, tce_m=(csize - 33) // 32, env_tce=1)
            if t.endswith('annex'): d['annex_present'] = 1; d['annex_hash'] = hashref.sha256(CS(len(ann)) + ann)
            return d
    elif t == 'witness-program-empty-witness':
        P = [0x00, 0x14] + h20; W = None; S = []
        # BIP141: spending a witness program with an empty witness is invalid (WITNESS_PROGRAM_WITNESS_EMPTY); it must not be set up as a legacy anyone-can-spend
        exp = lambda ctx: dict(ok=REFUSED)
    else: raise Exception(t)
    # transactions: the funding tx has two outputs, the spent one at index 1; the spending tx has one or two inputs
    fund_outs = [(bs('ov', 8), [0x6a]), (val, P)]
    fund_full, fund_stripped = ser_tx([1, 0, 0, 0], [(bs('fh', 32), [0, 0, 0, 0], [], [0xff] * 4, None)], fund_outs, [0, 0, 0, 0])
    ph = bs('ph', 32)          # prevout hash of the input under test (configure_tx_txin trusts the indices it is given)
    mine = (ph, [1, 0, 0, 0], S, bs('sq', 4), W)
    other = (bs('oh', 32), [0, 0, 0, 0], [], bs('osq', 4), [bs('ow', 2)] if ob.get('other_wit') else None)          # the companion input may carry a witness of its own (mixed transaction)
    ins = [mine] if idx == 0 and True else [other, mine]
    if idx == 0: ins = [mine, other]
    spend_full, _ = ser_tx(bs('ver', 4), ins, [(bs('sv', 8), [0x51])], bs('lk', 4))
    inputs = dict(tx=spend_full, txin=fund_full)
    if ob.get('symflags'): inputs['flags'] = FLAGS
    return dict(tx=spend_full, txin=fund_full, idx=idx, vout=1, exp=exp, inputs=inputs, assume=assume, flags=FLAGS)

def parse_out(E, f, raw):
    rp = sesslib.Rep(lambda off, n: (hlib.le(raw[off:off + n]) if n > 1 else raw[off]), (lambda t: hlib.uniq(E, f, t)) if f is not None else None)
    ok = rp.u32()
    if is_sym(ok): ok = hlib.uniq(E, f, ok)
    if ok == 2: return ('crash', 'exception-escapes-configure', 'an exception leaves Instance::configure_tx_txin (main() does not guard this call)')
    if ok != 1: return dict(ok=0)
    d = dict(ok=1, sigver=rp.u32(), script=rp.bytes(), successor=rp.bytes())
    d['stack'] = [rp.bytes() for _ in range(rp.cu32())]
    d['amount'] = rp.u64(); d['preamble'] = rp.u32()
    ai = rp.u32(); ap = rp.u32(); ah = rp.bytes()
    if is_sym(ai): ai = hlib.uniq(E, f, ai)
    d['annex_present'] = (ap if not is_sym(ap) else ap) if ai else 0
    if ai and is_sym(ap): d['annex_present'] = hlib.uniq(E, f, ap)
    d['annex_hash'] = ah if (ai and d['annex_present']) else '*'
    li = rp.u32(); lf = rp.bytes(); wi = rp.u32(); wt = rp.u64()
    d['tce'] = rp.u32(); d['tce_m'] = rp.u32()
    d['leaf'] = lf if (not is_sym(d['tce']) and d['tce']) else '*'; d['weight'] = wt if (not is_sym(d['tce']) and d['tce']) else '*'
    d['env_ok'] = rp.u32(); d['env_sigver'] = rp.u32(); env_done = rp.u32(); env_p2sh = rp.u32(); d['env_script'] = rp.bytes(); d['env_successor'] = rp.bytes(); d['env_tce'] = rp.u32()
    rp.u32(); rp.u64(); rp.u32(); d['env_flags'] = rp.u32()
    return d

def prep(ob, V=None):
    if ob['kind'] == 'select': return prep_select(ob, V)
    b = build(ob, V)
    spec = [('in', b['tx']), ('u32', len(b['tx'])), ('in', b['txin']), ('u32', len(b['txin'])), ('u32', b['idx']), ('u32', b['vout']), ('u32', b['flags']), ('out', 6000)]
    def io(E, f, ret, outs):
        if ret is None: return ('crash', f.result[1] if f.result else 'none', f.result[2] if f.result and len(f.result) > 2 else '')
        n = hlib.uniq(E, f, ret) if f is not None else ret
        return parse_out(E, f, outs[0](n))
    return 'w_configure', spec, io, b['exp'], b['assume'], b['inputs']

def prep_select(ob, V=None):
    sym = V is None
    def var(n, bits=8): return z3.BitVec(n, bits) if sym else V.get(n, 0)
    def bs(n, k): return [var('%s%d' % (n, i)) for i in range(k)]
    fund_full, fund_stripped = ser_tx([2, 0, 0, 0], [(bs('fh', 32), [0, 0, 0, 0], [], [0xff] * 4, None)], [(bs('ov', 8), [0x51])], [0, 0, 0, 0])
    hs = [bs('p%d_' % i, 32) for i in range(ob['nin'])]; ns = [bs('n%d_' % i, 4) for i in range(ob['nin'])]
    spend_full, _ = ser_tx([2, 0, 0, 0], [(hs[i], ns[i], [], [0xff] * 4, None) for i in range(ob['nin'])], [(bs('sv', 8), [0x51])], [0, 0, 0, 0])
    txid = hashref.hash256(fund_stripped)
    spec = [('in', C07.to_hex(spend_full) + [0]), ('in', C07.to_hex(fund_full) + [0]), ('u32', ob['sel'] & 0xffffffff), ('out', 64)]
    def io(E, f, ret, outs):
        if ret is None: return ('crash', f.result[1] if f.result else 'none', '')
        n = hlib.uniq(E, f, ret) if f is not None else ret
        raw = outs[0](n); ok = hlib.le(raw[0:4])
        if is_sym(ok): ok = hlib.uniq(E, f, ok)
        if ok != 1: return dict(ok=0 if ok == 0 else ok)
        return dict(ok=1, idx=hlib.le(raw[4:12]), vout=hlib.le(raw[12:20]))
    def ref(ctx):
        sel = ob['sel']
        match = [R.items_equal(hs[i], txid) for i in range(ob['nin'])]
        if sel >= 0:
            if sel >= ob['nin']: return dict(ok=0)
            if not ctx.branch(match[sel]): return dict(ok=0)
            if not ctx.branch(z3.ULT(R.B(hlib.le(ns[sel]), 32), 1)): return dict(ok=0)        # the funding transaction has one output: any other index refers to nothing
            return dict(ok=1, idx=sel, vout=z3.ZeroExt(32, R.B(hlib.le(ns[sel]), 32)))
        for i in range(ob['nin']):
            if ctx.branch(match[i]):
                if not ctx.branch(z3.ULT(R.B(hlib.le(ns[i]), 32), 1)): return dict(ok=0)
                return dict(ok=1, idx=i, vout=z3.ZeroExt(32, R.B(hlib.le(ns[i]), 32)))
        return dict(ok=0)
    return 'w_select', spec, io, ref, [], dict(hs=hs, ns=ns, fund=fund_full)

def run(E, ob):
    fn, spec, io, ref, assume, inputs = prep(ob)
    def key(a, b):
        if isinstance(a, (list, tuple)): return 'C03:%s:%s' % (ob.get('t', 'select'), a[1])
        return 'C03:%s:%s' % (ob.get('t', 'select'), 'accepted-vs-refused' if a.get('ok') != b.get('ok') else 'setup')
    return hlib.flat_check(E, ob['name'], fn, spec, io, ref, assume, inputs, key)

def replay(lib, ob, cex):
    if ob['kind'] == 'select': return None, 'selection replay: see note'
    tx = cex['tx']; txin = cex['txin']
    spec = [('in', tx), ('u32', len(tx)), ('in', txin), ('u32', len(txin)), ('u32', ob['idx']), ('u32', 1), ('u32', cex.get('flags', 0x1fffdf)), ('out', 6000)]
    ret, outs = hlib.spec_native(lib, 'w_configure', spec)
    nat = parse_out(None, None, outs[0](ret))
    return None, 'native set-up for --tx=%s --txin=%s : %s' % (bytes(tx).hex(), bytes(txin).hex(), sesslib.short(nat, 300))

def validate(E, lib):
    import random
    rnd = random.Random(4); n = 0
    for ob in [o for o in obligations('quick', 0) if o['kind'] == 'setup' and o['idx'] == 0][:12]:
        class RV(dict):
            def get(s, k, d=0): return 0xc0 if k == 'c0' else rnd.randrange(256)
        fn, spec, io, ref, assume, inputs = prep(ob, RV())
        ret, outs = hlib.spec_native(lib, fn, spec); nat = io(None, None, ret, outs)
        runs = hlib.spec_engine(E, fn, spec)
        if len(runs) != 1 or runs[0][1] is None: raise EncoderMismatch('engine concrete run failed on %s: %r' % (ob['name'], [r[0].result for r in runs]))
        eng = io(E, runs[0][0], runs[0][1], runs[0][2])
        if refexec.differs(eng, nat) is not False: raise EncoderMismatch('engine %s != native %s on %s' % (sesslib.short(eng), sesslib.short(nat), ob['name']))
        n += 1
    return n
