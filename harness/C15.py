"""C15 - no input makes the tools crash or touch memory they do not own (per-scenario symbolic execution under the engine's memory monitors)."""
import z3, os
import maindeb, procenv, stubs, hlib, sesslib, refscript as R, refexec, runtool, build, hashref
from irsym import is_sym, bv, simp, ProgramExit
from core import mkres, EncoderMismatch
import C07, C12, C14

ID = 'C15'
TITLE = 'crash-freedom scenarios run under the engine monitors (out-of-bounds / use-after-free / mismatched or double free / failed assert / trap / division by zero / uncaught exception / string functions over unwritten memory): real main() of btcdeb with symbolic arguments, btcc pipeline on fully symbolic tokens, value transforms on adversarial arguments, session set-up with inconsistent transactions, exec leftovers, kerl line splitter'
TUS = maindeb.TUS + ['kerl']
SHIMS = ['maindeb', 'valtf', 'spend', 'btcc', 'sess', 'kerlshim']
NATIVE = True
PARTS = ['C15tap']
NATIVE_TUS = build.ALL_NATIVE + ['instance', 'functions', 'kerl']
FUNCTIONS = ['main() of btcdeb.cpp', 'btcc pipeline', 'Value(const char*) and Value::parse_args on arbitrary characters', 'Value::do_addr_to_spk / do_bech32dec / do_base58chkdec', 'Instance::configure_tx_txin / setup_environment with inconsistent tx pairs',
             'Instance::eval followed by Instance::step', 'svf_parse_flags', 'kerl_make_argcv']
ASSUMPTIONS = ['whole-program crash-freedom over arbitrary argv/stdin is not a bounded-kernel claim: each scenario below is a bounded family of inputs', 'every other check (C01-C18) also runs under the same monitors: a crash outcome there is reported by that check',
               'process environment modelled as in C08', 'sanitizer/valgrind exploration named by the property belongs to another technique family and is not used']
OUTSIDE = ['transforms that call into libsecp256k1 (combine/tweak pubkeys, verify-sig, pubkey-to-xpubkey)', 'interactive command sequences beyond exec+step', 'tap (decided by C06 where encodable)', 'inputs longer than the scenario bounds']
BOUNDS = 'btcc: 1-2 tokens of 1-4 fully symbolic non-NUL characters, plus bracket/paren templates; btcdeb main: script argument of 1-3 symbolic characters, stack arguments of 1-3 symbolic characters, -f values of 1-6 symbolic characters and a 200-character token, empty stdin, --tx/--txin pairs with out-of-range indices and short hash pushes; transforms: symbolic strings of 0-4 characters through addr_to_spk, base58chkdec, bech32dec; kerl: lines of 1-5 symbolic characters'

def setup(E):
    maindeb.setup(E)
    procenv.install_tinyformat(E)
    stubs.install_oracle(E)
    for n in list(E.mod.funcs):
        if n.startswith('@kerl_') and n not in ('@kerl_run', '@kerl_make_argcv', '@kerl_free_argcv', '@kerl_make_argcv_escape'): E.stubs[n[1:]] = lambda E, st, fr, I, A: 0
    def kerl_run(E, st, fr, I, A): raise ProgramExit(1000)
    E.stubs['kerl_run'] = kerl_run
    def verify(E, st, fr, I, A): return stubs.b2i(z3.Bool('sigok_%d' % E.fresh()), 1)
    E.stubs['_ZNK7CPubKey6VerifyERK7uint256RKSt6vectorIhSaIhEE'] = verify
    E.stubs['_ZNK11XOnlyPubKey13VerifySchnorrERK7uint2564SpanIKhE'] = verify
    E.stubs['_ZN7CPubKey9CheckLowSERKSt6vectorIhSaIhEE'] = lambda E, st, fr, I, A: 1
    E.stubs['_ZSt17iostream_categoryv'] = lambda E, st, fr, I, A: 0
    E.stubs['ispunct'] = lambda E, st, fr, I, A: 0

def sc(n, pfx='c'): return [z3.BitVec('%s%d' % (pfx, i), 8) for i in range(n)]

def obligations(tier, seed):
    obs = []
    def add(name, **kw): kw['name'] = name; obs.append(kw)
    # --- btcc on arbitrary characters
    for n in (1, 2, 3) if tier == 'quick' else (1, 2, 3, 4): add('btcc/sym%d' % n, kind='btcc', toks=[('sym', n)])
    for tpl in (['[', '?', ']'], ['?', '(', '?', ')'], ['[', '?'], ['?', ']'], ['(', ')'], ['x', '(', ')'], ['[', '[', '?', ']'], ['0', 'x', '?'], ['-', '?'], ['O', 'P', '_', 'x', '?', '?'], ['0', 'b', '?']):
        add('btcc/tpl/' + ''.join(tpl), kind='btcc', toks=[('tpl', tpl)])
    for n in (28, 29, 30, 31, 32): add('btcc/fn-name-len/%d' % n, kind='btcc', toks=[('tpl', list('a' * (n - 1)) + ['?', '(', '1', ')'])])          # the inline-function name is copied into char fun[30] (seed C15-2)
    add('btcc/two', kind='btcc', toks=[('sym', 1), ('sym', 1)])
    for fn_ in ('addr_to_spk', 'base58chkdec', 'bech32dec', 'spk_to_addr', 'jacobi', 'add', 'sub', 'tagged_hash', 'prefix_compact_size', 'reverse', 'int', 'hex'):
        for n in (0, 1, 3): add('btcc/fn/%s/%d' % (fn_, n), kind='btcc', toks=[('fn', fn_, n)])
    add('tf/bech32dec/empty-payload', kind='bechempty')
    # --- the interactive `tf` command (fn_tf: line splitting, dispatch, argument count handling, printing) on arbitrary argument characters
    TFNAMES = ['addr-to-scriptpubkey', 'add', 'bech32-decode', 'bech32-encode', 'bech32m-encode', 'base58chk-decode', 'base58chk-encode', 'echo', 'hash160', 'hash256', 'hex', 'int', 'len',
               'prefix-compact-size', 'reverse', 'ripemd160', 'sha256', 'scriptpubkey-to-addr', 'sub', 'tagged-hash']
    for nm in TFNAMES:
        add('tf/%s/no-argument' % nm, kind='tfline', line=[nm])
        add('tf/%s/one-argument-sym2' % nm, kind='tfline', line=[nm, ('sym', 2)])
        if tier != 'quick' or nm in ('add', 'sub', 'tagged-hash', 'echo', 'len'): add('tf/%s/two-arguments-sym1' % nm, kind='tfline', line=[nm, ('sym', 1), ('sym', 1)])
    for ln in ([], ['-h'], ['nosuchfunction', 'x'], [('sym', 2)], ['hex', '0x'], ['hex', '[', ']'], ['add', '0x01', '0x02', '0x03', '0x04'], ['reverse', '""'], ['len', "'"]):
        add('tf/line/%s' % ' '.join(x if isinstance(x, str) else '?' * x[1] for x in ln), kind='tfline', line=ln)
    # long base-58 strings made of the largest digit (seed C15-6: the decoder's work buffer was one byte short for 56, 112, 153.. characters -> assert)
    for n in range(3, 201):
        add('tf/base58chk-decode/largest-%d-chars' % n, kind='tfline', line=['base58chk-decode', ('zsym', n)])
    # --- interactive command sequences at the prompt (the command functions are called on the state in which main() reached the prompt)
    SEQS = {'walk': ['print', 'stack', 'altstack', 'vfexec', 'step', 'print', 'step', 'stack', 'rewind', 'rewind', 'rewind', 'step', 'step', 'step', 'step', 'step', 'step', 'print', 'rewind', 'print', 'step'],
            'exec-sym': ['step', ('exec', ('sym', 2)), 'stack', ('exec', 'OP_DUP', ('sym', 1)), 'print', 'step', 'rewind'],
            'tf-sym': [('tf', 'hex', ('sym', 2)), ('tf', ('sym', 2)), ('tf',), 'step', ('tf', 'reverse', ('sym', 2))],
            'args': [('step', ('sym', 1)), ('rewind', ('sym', 1)), ('stack', ('sym', 1)), ('print', ('sym', 1)), ('exec',), ('exec', '')]}
    for sname, script in (('if', '[OP_1 OP_IF OP_2 OP_TOALTSTACK OP_ENDIF OP_3]'), ('long-push', '[0x' + 'cd' * 300 + ' OP_SIZE]'), ('empty', '[]')):
        for qname in SEQS:
            if tier == 'quick' and sname != 'if' and qname != 'walk': continue
            add('commands/%s/%s' % (sname, qname), kind='cmds', script=script, seq=SEQS[qname])
    # failing steps followed by rewind, on plain scripts and on transaction sessions (script switches advance the position without recording history: seed C15-5)
    SEQS['fail-rewind'] = ['step', 'step', 'rewind', 'stack', 'print', 'rewind', 'rewind', 'step', 'step', 'step', 'rewind', 'print']
    add('commands/fail-first/fail-rewind', kind='cmds', script='[OP_DUP OP_1]', seq=SEQS['fail-rewind'])
    add('commands/fail-second/fail-rewind', kind='cmds', script='[OP_1 OP_VERIFY OP_VERIFY OP_1]', seq=SEQS['fail-rewind'])
    import C12
    def txargv(ss, spk):
        tx, txin = C12.synth_pair(('raw', ss, spk)); return ['--tx=' + tx, '--txin=' + txin]
    h160e = [0xb4, 0x72, 0xa2, 0x66, 0xd0, 0xbd, 0x89, 0xc1, 0x37, 0x06, 0xa4, 0x13, 0x2c, 0xcf, 0xb1, 0x6f, 0x7c, 0x3b, 0x9f, 0xcb]      # hash160 of the empty string
    for sname, ss, spk in (('tx-empty-scriptsig-fail', [], [0x76]), ('tx-empty-scriptsig-ok', [], [0x51, 0x76]), ('tx-legacy-fail', [0x51], [0x88, 0x51]), ('tx-p2sh-empty-redeem', [0x51, 0x00], [0xa9, 0x14] + h160e + [0x87])):
        for qname in ('fail-rewind', 'walk'):
            if tier == 'quick' and qname == 'walk' and sname != 'tx-empty-scriptsig-fail': continue
            add('commands/%s/%s' % (sname, qname), kind='cmds', argv=txargv(ss, spk), seq=SEQS[qname])
    # --- btcdeb main
    for n in (1,) if tier == 'quick' else (1, 2): add('btcdeb/script-sym%d' % n, kind='main', args=[('sym', n)], tty=(1, 0, 1), timeout_s=1500)
    for n in (1, 2): add('btcdeb/stack-sym%d' % n, kind='main', args=[('lit', '[OP_DUP OP_DROP]'), ('sym', n)], tty=(1, 0, 1))
    for n in (1, 3, 6): add('btcdeb/-f-sym%d' % n, kind='main', args=[('pref', '-f', n), ('lit', '[OP_1]')], tty=(1, 0, 1))
    add('btcdeb/-f-long', kind='main', args=[('lit', '-f+' + 'A' * 200), ('lit', '[OP_1]')], tty=(1, 0, 1))
    for n in (125, 126, 127, 128, 129): add('btcdeb/-f-name-len/%d' % n, kind='main', args=[('lit', '-f+' + 'A' * n), ('lit', '[OP_1]')], tty=(1, 0, 1))          # svf_parse_flags copies each name into char buf[128]
    add('btcdeb/-f-second-name-127', kind='main', args=[('lit', '-f+NULLFAIL,-' + 'B' * 127), ('lit', '[OP_1]')], tty=(1, 0, 1))
    for n in (508, 509, 520): add('btcdeb/script-push-%d-bytes' % n, kind='main', args=[('lit', '[0x' + 'ab' * n + ']')], tty=(1, 0, 1))          # the listing line of a long push (fixed line buffer in main())
    add('btcdeb/empty-stdin', kind='main', args=[], tty=(0, 1, 1), stdin=[])
    if tier != 'quick': add('btcdeb/stdin-sym', kind='main', args=[], tty=(0, 1, 1), stdin='sym2', timeout_s=1700)          # 3 symbolic stdin characters exceed 1500 s
    add('btcdeb/-s-sym', kind='main', args=[('pref', '-s', 2), ('lit', '[OP_1]')], tty=(1, 0, 1))
    add('btcdeb/-P-sym', kind='main', args=[('pref', '-P', 3), ('lit', '[OP_1]')], tty=(1, 0, 1))
    # --- inconsistent transactions
    add('tx/vout-index-out-of-range', kind='txfix', fx='p2pkh', mut='vout5')
    add('tx/vout-index-out-of-range-segwit', kind='txfix', fx='p2sh-p2wpkh', mut='vout5')
    add('tx/select-out-of-range', kind='txfix', fx='p2pkh', mut='select9')
    for nm, tx in (('zero-inputs-zero-outputs', '02000000000000000000'), ('zero-inputs-flag-0-trailing', '0200000000000000000000'), ('zero-inputs-flag-1', '0200000000010001' + '00' * 8 + '0000000000')):
        add('tx/' + nm, kind='main', args=[('lit', '--tx=' + tx), ('lit', '[OP_1]')], tty=(1, 0, 1))
    add('tx/amounts-short', kind='txfix', fx='p2sh-p2wpkh', mut='none')
    add('setup/p2sh-short-hash', kind='spend', mut='p2sh19')
    add('setup/p2sh-empty-push', kind='spend', mut='p2shempty')
    add('setup/witness-v0-31-byte-program', kind='spend', mut='prog31')
    add('setup/taproot-empty-control', kind='spend', mut='ctrl0')
    for n in (1, 2, 31, 32, 34, 64): add('setup/taproot-control-%d-bytes' % n, kind='spend', mut='ctrl%d' % n)      # 1: (size - 33) % 32 == 0 in unsigned arithmetic (seed C15-1)
    # --- exec leftovers
    for toks in (['OP_CODESEPARATOR'], ['OP_1', 'OP_CODESEPARATOR']): add('exec-then-step/' + ' '.join(toks), kind='execstep', toks=toks)
    # --- kerl
    for n in (1, 2, 3, 4) if tier == 'quick' else (1, 2, 3, 4, 5): add('kerl/argcv/sym%d' % n, kind='kerl', n=n)
    return obs

def crash_of(f):
    r = f.result
    if r is None: return ('none', '')
    if r[0] == 'violation': return (r[1], r[2])
    if r[0] == 'uncaught': return ('uncaught-exception', 'a C++ exception leaves the entry point')
    return None

def finish(E, ob, res, finals, inputs, where=''):
    res['paths'] = len(finals); cls = {}
    for f in finals:
        c = crash_of(f); k = 'ok' if c is None else 'crash:' + c[0]; cls[k] = cls.get(k, 0) + 1
        if c is not None and res['status'] == 'holds':
            m = E.model(f)
            res['status'] = 'violated'; res['note'] = '%s: %s%s' % (c[0], c[1], where); res['key'] = 'C15:%s:%s' % (ob['name'].split('/')[0] + '/' + ob['name'].split('/')[1], c[0])
            res['cex'] = sesslib.concretize(m, inputs) if m is not None else {}
    res['classes'] = cls
    if not finals: res['status'] = 'inconclusive'; res['note'] = 'no path'
    return res

def tok_chars(t, i, assume):
    if t[0] == 'sym':
        cs = sc(t[1], 't%d_' % i); assume += [c != 0 for c in cs]; return cs, cs
    if t[0] == 'tpl':
        out = []; syms = []
        for j, ch in enumerate(t[1]):
            if ch == '?': v = z3.BitVec('t%d_%d' % (i, j), 8); assume.append(v != 0); out.append(v); syms.append(v)
            else: out.append(ord(ch))
        return out, syms
    if t[0] == 'fn':
        cs = sc(t[2], 't%d_' % i); assume += [c != 0 for c in cs] + [c != ord(')') for c in cs[-1:]]
        return list(t[1].encode()) + [ord('(')] + cs + [ord(')')], cs
    raise Exception(t)

def run(E, ob):
    res = mkres(ob['name']); k = ob['kind']; assume = []
    if k == 'btcc':
        req = list(len(ob['toks']).to_bytes(4, 'little')); syms = []
        for i, t in enumerate(ob['toks']):
            cs, s = tok_chars(t, i, assume); req += list(len(cs).to_bytes(4, 'little')) + cs; syms += s
        runs = hlib.spec_engine(E, 'w_btcc', [('in', req), ('out', 4000)], assume)
        return finish(E, ob, res, [r[0] for r in runs], dict(syms=syms))
    if k == 'tfline':
        chars = []; syms = []
        for i, x in enumerate(ob['line']):
            if i: chars.append(32)
            if isinstance(x, str): chars += list(x.encode())
            elif x[0] == 'zsym':
                # the largest base-58 number of that length except for its last digit, which is any letter or digit (sizing of the decoder's work buffer)
                cs = sc(1, 'l%d_' % i); c = cs[0]; assume.append(z3.Or(z3.And(z3.UGE(c, 48), z3.ULE(c, 57)), z3.And(z3.UGE(c, 65), z3.ULE(c, 90)), z3.And(z3.UGE(c, 97), z3.ULE(c, 122))))
                chars += [ord('z')] * (x[1] - 1) + cs; syms += cs
            else:
                cs = sc(x[1], 'l%d_' % i); assume += [z3.And(c != 0, c != 32, c != 10, c != 34, c != 39, c != 92) for c in cs]; chars += cs; syms += cs          # no separators / quotes / escapes (line splitting is the kerl scenario)
        runs = hlib.spec_engine(E, 'w_fn_tf', [('in', chars + [0])], assume)
        return finish(E, ob, res, [r[0] for r in runs], dict(line=[c for c in chars], syms=syms))
    if k == 'cmds':
        CMD = {'step': '@_Z7fn_stepPKc', 'rewind': '@_Z9fn_rewindPKc', 'stack': '@_Z8fn_stackPKc', 'altstack': '@_Z11fn_altstackPKc', 'vfexec': '@_Z9fn_vfexecPKc', 'exec': '@_Z7fn_execPKc', 'tf': '@_Z5fn_tfPKc', 'print': '@_Z8fn_printPKc'}
        states = [f for f in maindeb.run_main(E, [list(b'btcdeb')] + [list(a.encode()) for a in (ob['argv'] if 'argv' in ob else [ob['script']])], (1, 1, 1), None, []) if f.result == ('exit', 1000)]
        if not states: res['status'] = 'inconclusive'; res['note'] = 'main() did not reach the prompt'; return res
        finals = []; syms = []; n = 0
        for ci, c in enumerate(ob['seq']):
            name = c if isinstance(c, str) else c[0]; parts = [] if isinstance(c, str) else list(c[1:])
            chars = []; extra = []
            for pi, x in enumerate(parts):
                if pi: chars.append(32)
                if isinstance(x, str): chars += list(x.encode())
                else:
                    cs = sc(x[1], 'k%d_%d_' % (ci, pi)); extra += [z3.And(v != 0, v != 32, v != 10, v != 34, v != 39, v != 92) for v in cs]; chars += cs; syms += cs
            nxt = []
            for f in states:
                g = f.clone(); g.frames = []; g.result = None; g.pc = list(g.pc) + extra; g.model = None
                a = E.alloc(g, len(chars) + 1, 'heap')
                for i, b in enumerate(chars + [0]): E.store(g, a + i, 1, b)
                E.call(g, CMD[name], [a])
                for h_ in E.run(g):
                    n += 1
                    if h_.result and h_.result[0] == 'ret': nxt.append(h_)
                    else: finals.append(h_)          # a crash ends this branch and is reported by finish()
            states = nxt[:24]                          # bound on the number of concurrent branches (symbolic arguments fork)
            if not states: break
        return finish(E, ob, res, finals + states, dict(syms=syms))
    if k == 'bechempty':
        # a valid bech32 string with an empty data part: "bc1" + checksum (computed by the reference polymod)
        s = C14.bech32_ref([], 0)
        expr = list(b'bech32dec(') + [z3.simplify(x).as_long() if is_sym(x) else x for x in s] + list(b')') + [0]
        runs = hlib.spec_engine(E, 'w_tf_expr', [('in', expr), ('out', 400)], [])
        return finish(E, ob, res, [r[0] for r in runs], dict(expr=expr))
    if k == 'main':
        argv = [list(b'btcdeb')]; syms = []
        for i, a in enumerate(ob['args']):
            if a[0] == 'lit': argv.append(list(a[1].encode()))
            elif a[0] == 'sym': cs = sc(a[1], 'a%d_' % i); assume += [c != 0 for c in cs] + [cs[0] != 45]; argv.append(cs); syms += cs
            elif a[0] == 'pref': cs = sc(a[2], 'a%d_' % i); assume += [c != 0 for c in cs]; argv.append(list(a[1].encode()) + cs); syms += cs
        stdin = ob.get('stdin')
        if stdin in ('sym3', 'sym2'): cs = sc(int(stdin[3]), 'in'); assume += [z3.And(c != 0, c != 10) for c in cs]; stdin = cs + [10]; syms += cs
        fin = maindeb.run_main(E, argv, ob['tty'], stdin, assume)
        fin = [f for f in fin]
        for f in fin:
            if f.result == ('exit', 1000): f.result = ('ret', 0)
        return finish(E, ob, res, fin, dict(syms=syms, argv=[a for a in argv]))
    if k == 'txfix':
        tx, txin = C12.read_fixture(ob['fx'])
        txb = bytearray(bytes.fromhex(tx)); args = []
        if ob['mut'] == 'vout5':
            # the spent output index lives right after the 32-byte prevout hash of the first input
            off = 4 + (2 if txb[4] == 0 else 0) + 1 + 32
            txb[off:off + 4] = (5).to_bytes(4, 'little')
        if ob['mut'] == 'select9': args = ['--select=9']
        argv = [list(b'btcdeb'), list(('--tx=' + txb.hex()).encode()), list(('--txin=' + txin).encode())] + [list(a.encode()) for a in args]
        fin = maindeb.run_main(E, argv, (1, 0, 1), None, [])
        return finish(E, ob, res, fin, dict(argv=argv))
    if k == 'spend':
        import C03
        if ob['mut'] in ('p2sh19', 'p2shempty'):
            b = C03.build(dict(t='p2sh-p2wpkh', idx=0), None)
        elif ob['mut'] == 'prog31': b = C03.build(dict(t='p2wpkh', idx=0), None)
        else: b = C03.build(dict(t='p2tr-script-ctrl', idx=0, csize=int(ob['mut'][4:])), None)
        tx = list(b['tx']); txin = list(b['txin'])
        def patch(seq, old, new):
            for i in range(len(seq) - len(old) + 1):
                if all((not is_sym(seq[i + j])) and seq[i + j] == old[j] for j in range(len(old))): seq[i:i + len(old)] = new; return True
            return False
        if ob['mut'] == 'p2sh19':
            # scriptPubKey HASH160 <19 bytes> EQUAL
            i = [j for j in range(len(txin) - 2) if txin[j] == 0xa9 and txin[j + 1] == 0x14][-1]
            txin[i - 1] = 22; del txin[i + 2]; txin[i + 1] = 0x13
        if ob['mut'] == 'p2shempty':
            i = [j for j in range(len(tx) - 2) if (not is_sym(tx[j])) and tx[j] == 23 and tx[j + 1] == 22][0]
            tx[i:i + 24] = [1, 0x00]
        if ob['mut'] == 'prog31':
            i = [j for j in range(len(txin) - 2) if txin[j] == 0x00 and txin[j + 1] == 0x14 and txin[j - 1] == 22][-1]
            txin[i - 1] = 21; txin[i + 1] = 0x13; del txin[i + 2]
        spec = [('in', tx), ('u32', len(tx)), ('in', txin), ('u32', len(txin)), ('u32', 0), ('u32', 1), ('u32', 0x1fffdf), ('out', 6000)]
        runs = hlib.spec_engine(E, 'w_configure', spec, b['assume'])
        fins = []
        for (f, ret, outs) in runs:
            if ret is not None and not is_sym(ret):
                raw = outs[0](4)
                if hlib.le(raw) == 2: f.result = ('uncaught', None)
            fins.append(f)
        return finish(E, ob, res, fins, dict(tx=tx, txin=txin), ' (main() calls configure_tx_txin without an exception guard)')
    if k == 'execstep':
        toks = [list(t.encode()) for t in ob['toks']]
        sig = sc(2, 'sg'); key = sc(33, 'ky')
        script = [0x51, 0xac, 0x51]
        pre = dict(alt=[], vf=(0, None), nop=0, pc=1, pbch=0, opcode_pos=1, codesep=0xffffffff, curr_op_seq=1, hist=[])
        req = sesslib.sess_request(8, z3.BitVec('flags', 32), R.BASE, [sig, key], script, 0, 2, (0, 0, 0), pre, tokens=toks)
        out, fin = sesslib.engine_call(E, req)
        return finish(E, ob, res, fin, dict(sig=sig, key=key), ' (a step after exec)')
    if k == 'kerl':
        cs = sc(ob['n'], 'k'); assume = [c != 0 for c in cs]
        runs = hlib.spec_engine(E, 'w_kerl_argcv', [('in', cs + [0]), ('out', 64)], assume)
        return finish(E, ob, res, [r[0] for r in runs], dict(line=cs))
    raise Exception(k)

def replay(lib, ob, cex):
    k = ob['kind']
    wd = os.path.dirname(lib._name)
    if k in ('main', 'txfix'):
        exe = maindeb.build_btcdeb(wd)
        argv = cex.get('argv') or []
        cmd = [exe] + [bytes(a).decode('latin1') for a in argv[1:]]
        stdin = ob.get('stdin')
        if stdin in ('sym3', 'sym2'): stdin = bytes(cex['syms'][-int(stdin[3]):]) + b'\n'
        elif stdin is not None: stdin = bytes(stdin)
        rc, out, err = runtool.run(cmd, stdin_tty=bool(ob.get('tty', (1, 0, 1))[0]), stdout_tty=bool(ob.get('tty', (1, 0, 1))[1]), stdin_data=stdin)
        bad = rc is None or rc < 0
        return (True if bad else None), 'real binary: %s -> exit %s, stderr %r' % (' '.join(c[:80] for c in cmd[1:]), rc, err[-200:])
    if k == 'btcc':
        # rebuild the token bytes
        req = list(len(ob['toks']).to_bytes(4, 'little')); it = iter(cex.get('syms', []))
        for i, t in enumerate(ob['toks']):
            a = []
            cs, s = tok_chars(t, i, a)
            cs = [next(it) if is_sym(c) else c for c in cs]
            req += list(len(cs).to_bytes(4, 'little')) + cs
        ret, outs = hlib.spec_native(lib, 'w_btcc', [('in', req), ('out', 4000)])
        return None, 'native btcc pipeline returned normally on %r (memory errors need a sanitizer to show natively)' % bytes(req[4:])
    return None, 'native replay of this scenario needs a sanitizer build to be conclusive; the engine trace is the evidence'

def validate(E, lib):
    import C08
    return C08.validate(E, lib)          # engine vs the real btcdeb binary on concrete command lines (same shim, same environment model)
