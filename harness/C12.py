"""C12 - the script listing and position marker show exactly what executes next (real main() in interactive mode, then stepping)."""
import z3, os
import maindeb, procenv, stubs, refscript as R, refexec, sesslib, hlib, build, hashref
from irsym import is_sym, bv, simp, ProgramExit, Unsupported
from core import mkres, EncoderMismatch
import C07

ID = 'C12'
TITLE = "btcdeb's real main() run to the interactive prompt (listing built by the real code), then Instance::step repeatedly: before every step the marked listing line must describe the operation the next step executes; after the last nothing is marked; commitment-phase lines vs commitment steps"
TUS = maindeb.TUS; SHIMS = ['maindeb', 'tce']
NATIVE = True
NATIVE_TUS = build.ALL_NATIVE + ['instance', 'functions', 'kerl']
FUNCTIONS = ['main() of btcdeb.cpp: listing construction (script_lines, count, section headers, TaprootCommitmentEnv::Description)', 'StepScript(InterpreterEnv&) curr_op_seq arithmetic', 'Instance::step', 'Instance::configure_tx_txin (fixtures)',
             'GetOpName', 'HexStr', 'TaprootCommitmentEnv::Description']
ASSUMPTIONS = ['process environment modelled as in C08; kerl_* (readline loop) stubbed: the session is inspected at the point main() enters the prompt', 'tinyformat::format modelled precisely in Python for the format strings used by the listing',
               'signature / tweak checks answer through uninterpreted functions (both outcomes explored)', 'dual-stack rendering (column layout) is outside the claim']
OUTSIDE = ['rewind steps (curr_op_seq decrement is covered by C04)', 'fn_print / fn_step echo code (they index script_lines with curr_op_seq; the index itself is what is checked)']
BOUNDS = 'tapscript sessions with Merkle paths of length 0..3 whose node bytes are symbolic (listing text of every commitment line against the bytes the step hashes); plain scripts (9 templates, pushes of 1-3 symbolic bytes); the six real-chain sessions of doc/txs run through --tx/--txin (legacy P2PKH with scriptPubKey section, P2SH multisig, P2SH-P2WPKH, taproot key path, tapscript); tapscript commitment line/step count for path lengths 0..3'

def setup(E):
    maindeb.setup(E)
    procenv.install_tinyformat(E)
    E.stubs.pop('_Z9GetOpNameB5cxx1110opcodetype', None)
    for n in list(E.mod.funcs):
        if n.startswith('@kerl_') and n != '@kerl_run': E.stubs[n[1:]] = lambda E, st, fr, I, A: 0
    def kerl_run(E, st, fr, I, A): raise ProgramExit(1000)        # main() reached the interactive prompt
    E.stubs['kerl_run'] = kerl_run
    E.stubs['_Z15print_dualstackv'] = lambda E, st, fr, I, A: None
    # ECDSA / Schnorr verification: uninterpreted
    def verify(E, st, fr, I, A): return stubs.b2i(z3.Bool('sigok_%d' % E.fresh()), 1)
    E.stubs['_ZNK7CPubKey6VerifyERK7uint256RKSt6vectorIhSaIhEE'] = verify
    E.stubs['_ZNK11XOnlyPubKey13VerifySchnorrERK7uint2564SpanIKhE'] = verify
    E.stubs['_ZN7CPubKey9CheckLowSERKSt6vectorIhSaIhEE'] = lambda E, st, fr, I, A: 1
    def tce_ctor(E, st, fr, I, A):
        # make the Merkle path nodes of the control block symbolic at the moment the commitment object is built (the transaction text stays concrete)
        if st.aux.get('sym_control') and not st.aux.get('tce_done'):
            b = E.load(st, A[1], 8); e = E.load(st, A[1] + 8, 8)
            for i in range(33, e - b): E.store(st, b + i, 1, z3.BitVec('cb%d' % i, 8))
            st.aux['tce_done'] = True
        return stubs.NOT_HANDLED
    E.stubs['_ZN20TaprootCommitmentEnvC2ERKSt6vectorIhSaIhEES4_RK7CScriptP7uint256'] = tce_ctor

PLAIN = ['OP_1 OP_2 OP_ADD', '0x?? OP_DUP OP_DROP', 'OP_IF OP_1 OP_ELSE 0x???? OP_ENDIF', '0x?????? 0x?? OP_SWAP', 'OP_1', 'OP_0 OP_IF OP_2 OP_ENDIF OP_3', 'OP_1 OP_VERIFY OP_DEPTH', 'OP_RETURN OP_1', 'OP_NOP OP_NOP1']
FIXTURES = ['p2pkh', 'p2sh-multisig-2-of-2', 'p2sh-multisig-invalid-order', 'p2sh-p2wpkh', 'p2tr', 'p2ts']

def obligations(tier, seed):
    obs = []
    for s in PLAIN: obs.append(dict(name='plain/' + s, kind='plain', script=s, args=['0x01'] if s.startswith('OP_IF') else []))
    # long pushes: every push form and the longest listing lines (a 520-byte push is a 1046-character line)
    for n in (75, 76, 255, 256, 508, 509, 520): obs.append(dict(name='plain/push-%d-bytes' % n, kind='plain', script='0x' + 'ab' * n + ' OP_SIZE OP_NIP', args=[]))
    # every defined non-push opcode byte (0x4f..0xba) once, inside a branch that is not executed, given as a raw hex script: its listing line must name THAT operation
    # (seed C12-7 rendered 0x50 as "0"); conditionals are left out (they change the structure)
    for o in range(0x4f, 0xbb):          # bytes above OP_CHECKSIGADD are refused as an invalid script before any listing exists
        if 0x63 <= o <= 0x68: continue
        obs.append(dict(name='plain/skipped-opcode-%02x' % o, kind='plainhex', hex='0063%02x6851' % o))
    for f in FIXTURES: obs.append(dict(name='fixture/' + f, kind='fixture', fx=f, timeout_s=900, cost=10))
    # flag modifications change what is executed (P2SH off: no redeem-script section) and so what the listing must show (seed C12-4)
    # p2sh-empty-redeem: the scriptSig ends with OP_0 after an earlier data push, the redeem script is the empty script (seed C12-5 listed the earlier push as the redeem script)
    for syn in ('p2sh', 'legacy', 'p2sh-empty-redeem', 'p2sh-two-pushes', 'legacy-empty-scriptsig'):
        obs.append(dict(name='synthetic/%s' % syn, kind='fixture', synth=syn, timeout_s=900, cost=5))
        obs.append(dict(name='synthetic/%s/-f-P2SH' % syn, kind='fixture', synth=syn, opts=['-f-P2SH'], timeout_s=900, cost=5))
    obs.append(dict(name='fixture/p2pkh/-f-P2SH,-WITNESS', kind='fixture', fx='p2pkh', opts=['-f-P2SH,-WITNESS'], timeout_s=900, cost=10))
    for m in range(0, 4): obs.append(dict(name='tce-lines/m%d' % m, kind='tcelines', m=m))
    for m in range(0, 4): obs.append(dict(name='tapscript-session/m%d' % m, kind='tapsession', m=m, timeout_s=900, cost=5))
    return obs

def synth_pair(which):
    """hand-made funding / spending pair (no signatures needed)"""
    import hashlib, C03
    h160 = lambda b: list(hashlib.new('ripemd160', hashlib.sha256(bytes(b)).digest()).digest())
    if isinstance(which, tuple): ss, spk = list(which[1]), list(which[2])          # ('raw', scriptSig, scriptPubKey)
    elif which == 'p2sh': redeem = [0x52, 0x93]; spk = [0xa9, 0x14] + h160(redeem) + [0x87]; ss = [0x51, len(redeem)] + redeem          # OP_1 <OP_2 OP_ADD>
    elif which == 'p2sh-empty-redeem': redeem = []; spk = [0xa9, 0x14] + h160(redeem) + [0x87]; ss = [0x02, 0x51, 0x52, 0x00]           # <OP_1 OP_2> OP_0, redeem script empty
    elif which == 'p2sh-two-pushes': redeem = [0x75, 0x51]; spk = [0xa9, 0x14] + h160(redeem) + [0x87]; ss = [0x03, 0x52, 0x53, 0x93, 0x02] + redeem  # <OP_2 OP_3 OP_ADD> <OP_DROP OP_1>
    elif which == 'legacy-empty-scriptsig': spk = [0x51, 0x51, 0x87]; ss = []                                                            # nothing | 1 1 EQUAL (seed C12-6: no scriptPubKey header line then)
    elif which == 'legacy': spk = [0x93, 0x53, 0x87]; ss = [0x51, 0x52]                                                                    # 1 2 | ADD 3 EQUAL
    f_full, f_str = C03.ser_tx([2, 0, 0, 0], [([0x11] * 32, [0, 0, 0, 0], [], [0xff] * 4, None)], [((1000).to_bytes(8, 'little'), spk)], [0] * 4)
    txid = list(hashlib.sha256(hashlib.sha256(bytes(f_str)).digest()).digest())
    s_full, _ = C03.ser_tx([2, 0, 0, 0], [(txid, [0, 0, 0, 0], ss, [0xff] * 4, None)], [((900).to_bytes(8, 'little'), [0x51])], [0] * 4)
    return bytes(s_full).hex(), bytes(f_full).hex()

def read_fixture(fx):
    d = os.path.join(build.REPO, 'doc', 'txs')
    return open(os.path.join(d, fx + '-tx')).read().strip(), open(os.path.join(d, fx + '-in')).read().strip()

def session_argv(ob, V=None):
    sym = V is None; assume = []; syms = []
    def var(n): return z3.BitVec(n, 8) if sym else V.get(n, 0)
    if ob['kind'] == 'plain':
        chars = [ord('[')]
        for i, t in enumerate(ob['script'].split(' ')):
            if i: chars.append(32)
            if '?' in t:
                cs = [var('c%d_%d' % (i, k)) for k in range(len(t) - 2)]; syms += cs
                if sym:
                    for c in cs: assume.append(z3.Or(z3.And(z3.UGE(c, 48), z3.ULE(c, 57)), z3.And(z3.UGE(c, 97), z3.ULE(c, 102))))
                    assume.append(z3.UGE(cs[0], 97))       # value >= 0xa0: the push opcode is concrete (no OP_N short form)
                chars += list(b'0x') + cs
            else: chars += list(t.encode())
        chars.append(ord(']'))
        return [list(b'btcdeb'), chars] + [list(a.encode()) for a in ob['args']], assume, syms
    if ob['kind'] == 'plainhex': return [list(b'btcdeb'), list(ob['hex'].encode())], assume, syms
    if ob['kind'] == 'tapsession':
        import C03, random
        import hashlib
        txid = None
        for _pass in (0, 1):
            rnd = random.Random(100 + ob['m']); memo = {}
            class RV(dict):
                def get(s_, k, d=0):
                    if k not in memo: memo[k] = 0xc0 if k == 'c0' else (0x51 + rnd.randrange(8) if k.startswith('scr') else rnd.randrange(256))
                    if txid is not None and k.startswith('ph'): return txid[int(k[2:])]
                    return memo[k]
            b = C03.build(dict(t='p2tr-script-ctrl', idx=0, csize=33 + 32 * ob['m']), RV())
            txid = hashlib.sha256(hashlib.sha256(bytes(b['txin'])).digest()).digest()
        return [list(b'btcdeb'), list(('--tx=' + bytes(b['tx']).hex()).encode()), list(('--txin=' + bytes(b['txin']).hex()).encode())], assume, syms
    tx, txin = synth_pair(ob['synth']) if ob.get('synth') else read_fixture(ob['fx'])
    return [list(b'btcdeb')] + [list(o.encode()) for o in ob.get('opts', [])] + [list(('--tx=' + tx).encode()), list(('--txin=' + txin).encode())], assume, syms

OPNAME = {v: k for k, v in R.OP.items() if k not in ('OP_0', 'OP_1NEGATE', 'OP_1', 'OP_16')}
def opname(o):
    if o == 0: return '0'
    if o == 0x4f: return '-1'
    if 0x51 <= o <= 0x60: return str(o - 0x50)
    if o == 0xb1: return 'OP_CHECKLOCKTIMEVERIFY'
    if o == 0xb2: return 'OP_CHECKSEQUENCEVERIFY'
    return OPNAME.get(o, 'OP_UNKNOWN') if o != 0xff else 'OP_INVALIDOPCODE'

def parse_dump(E, f, raw_reader):
    rp = sesslib.Rep(raw_reader, lambda t: hlib.uniq(E, f, t))
    d = dict(count=rp.cu32(), seq=rp.cu32(), done=rp.cu32(), tce=rp.cu32(), tce_i=rp.cu32(), tce_m=rp.cu32(), control=rp.bytes(), script=rp.bytes(), pc=rp.cu32(), successor=rp.bytes(), p2sh=rp.cu32(), p2sh_script=rp.bytes(), sv=rp.cu32())
    d['lines'] = [rp.bytes() for _ in range(d['count'])]
    return d

def call_on(E, f, fn, args):
    """call a shim function on a finished state (frames cleared); returns final states"""
    g = f.clone(); g.frames = []; g.result = None
    E.call(g, fn, args)
    return E.run(g)

def expected_line(d):
    """what the next step executes, as listing text (without the #NNNN prefix), or None when nothing is pending; ('section', ...) for a script switch"""
    if d['tce']:
        i, m = d['tce_i'], d['tce_m']
        if i < m: return ('text', list(b'Branch: ') + C07.to_hex(d['control'][33 + 32 * i: 65 + 32 * i]))
        return ('commit-final', None)
    sc = d['script']; pc = d['pc']
    if pc < len(sc):
        o = sc[pc]
        if is_sym(o): raise Unsupported('symbolic opcode at pc')
        dec = R.decode_op(sc, pc)
        if dec is None: return ('text', list(opname(o).encode()))
        o, payload, npc = dec
        if len(payload) > 0: return ('text', C07.to_hex(payload))
        return ('text', list(opname(o).encode()))
    if d['p2sh'] or len(d['successor']): return ('section', None)
    return None

def check_marker(E, h, d, depth, res, inputs):
    """the marked line of the listing must be the operation the next step executes; returns (ok, expected)"""
    exp = expected_line(d)
    seq, count = d['seq'], d['count']
    def violated(what, model=None):
        res['status'] = 'violated'; res['note'] = what; res['key'] = 'C12:' + what.split(':')[0]
        res['cex'] = sesslib.concretize(model, inputs) if model is not None else {k: [] for k in inputs}
        res['cex']['_depth'] = depth
    if exp is None:
        if seq < count: violated('marker-after-end: after the last operation line %d of %d is still marked (%r)' % (seq, count, bytes(x if not is_sym(x) else 63 for x in d['lines'][seq])), E.model(h)); return False, exp
    else:
        if seq >= count: violated('marker-missing: step %d pending but curr_op_seq=%d >= count=%d' % (depth, seq, count), E.model(h)); return False, exp
        line = d['lines'][seq]
        if exp[0] == 'text':
            want = list(b'#%04d ' % seq) + exp[1]
            diff = refexec.differs(line, want)
            if diff is not False:
                sol = z3.Solver(); sol.set('timeout', E.query_timeout_ms)
                for c in h.pc: sol.add(c)
                if diff is not True: sol.add(diff)
                r = sol.check(); res['queries'] += 1
                if r == z3.sat:
                    m = sol.model()
                    violated('marker-wrong-line: before step %d the marked line is %r but the next operation is %r' % (depth, bytes(sesslib.concretize(m, line)), bytes(sesslib.concretize(m, want))), m); return False, exp
                if r == z3.unknown: res['status'] = 'inconclusive'; res['note'] = 'solver unknown'; return False, exp
        elif exp[0] == 'section':
            if not (len(line) > 3 and line[:3] == list(b'<<<')): violated('marker-wrong-line: script switch pending but marked line is %r' % bytes(x if not is_sym(x) else 63 for x in line), E.model(h)); return False, exp
        elif exp[0] == 'commit-final':
            # the last commitment step: the marked line must be a commitment line, and the line after it must already belong to the script
            nxt = d['lines'][seq + 1] if seq + 1 < count else None
            first_op = expected_line(dict(d, tce=0))
            if nxt is None or first_op is None or first_op[0] != 'text' or refexec.differs(nxt, list(b'#%04d ' % (seq + 1)) + first_op[1]) is True:
                violated('commitment-lines: the listing has more commitment lines than commitment steps: after the final commitment step line %r is marked instead of the first script operation' % (bytes(x if not is_sym(x) else 63 for x in nxt) if nxt else None), E.model(h)); return False, exp
    return True, exp

def dump_and_check(E, f, depth, res, inputs, where):
    g = f.clone(); g.frames = []; g.result = None
    out_a = E.alloc(g, 1 << 16, 'heap')
    E.call(g, '@w_session_dump', [out_a])
    for h in E.run(g):
        if h.result[0] != 'ret': res['status'] = 'inconclusive'; res['note'] = 'dump failed: %r' % (h.result,); return False
        d = parse_dump(E, h, lambda off, n, h=h: E.load(h, out_a + off, n))
        ok, _ = check_marker(E, h, d, depth, res, inputs)
        if not ok: res['note'] = where + ': ' + (res['note'] or ''); return False
    return True

def walk(E, f0, ob, res, inputs, V, maxsteps=40):
    """from the state where main() reached the prompt: check marker, step, repeat on every resulting path"""
    out_a = None
    work = [(f0, 0)]; nstates = 0
    while work:
        f, depth = work.pop()
        g = f.clone(); g.frames = []; g.result = None
        out_a = E.alloc(g, 1 << 16, 'heap')
        E.call(g, '@w_session_dump', [out_a]); fin = E.run(g)
        for h in fin:
            if h.result[0] != 'ret': res['status'] = 'inconclusive'; res['note'] = 'dump failed: %r' % (h.result,); return nstates
            d = parse_dump(E, h, lambda off, n, h=h: E.load(h, out_a + off, n))
            nstates += 1
            ok, exp = check_marker(E, h, d, depth, res, inputs)
            if not ok: return nstates
            if exp is None and not d['done'] and not d['tce']:
                # nothing is pending but the session is not finished: the end-of-script step, then a rewind of it - still nothing may be marked
                for s3 in call_on(E, h, '@w_session_step', []):
                    if s3.result[0] != 'ret': continue
                    for r3 in call_on(E, s3, '@w_session_rewind', []):
                        if r3.result[0] != 'ret' or (not is_sym(r3.result[1]) and r3.result[1] == 0): continue
                        if not dump_and_check(E, r3, depth, res, inputs, 'after rewinding the end-of-script step'): return nstates
                        nstates += 1
            if exp is None or depth >= maxsteps: continue
            # take the step on this state
            k = h.clone(); k.frames = []; k.result = None
            E.call(k, '@w_session_step', []); fin2 = E.run(k)
            for s2 in fin2:
                if s2.result[0] != 'ret': continue          # crash freedom is C15's
                if not is_sym(s2.result[1]) and s2.result[1] == 0: continue        # failed step: session stays, nothing further to check
                work.append((s2, depth + 1))
                # undo that step: the marker must be back on the operation just undone (the state equals h's)
                for r2 in call_on(E, s2, '@w_session_rewind', []):
                    if r2.result[0] != 'ret' or (not is_sym(r2.result[1]) and r2.result[1] == 0): continue      # refused rewinds (script switches) change nothing: C04
                    if not dump_and_check(E, r2, depth, res, inputs, 'after step;rewind'): return nstates
                    nstates += 1
    return nstates

def run(E, ob):
    res = mkres(ob['name'])
    if ob['kind'] == 'tcelines':
        m = ob['m']; ctrl = [z3.BitVec('c%d' % i, 8) for i in range(33 + 32 * m)]; prog = [z3.BitVec('p%d' % i, 8) for i in range(32)]
        runs = hlib.spec_engine(E, 'w_tce_desc_lines', [('in', ctrl), ('u32', len(ctrl)), ('in', prog)])
        res['paths'] = len(runs)
        for f, ret, outs in runs:
            if ret is None: res['status'] = 'inconclusive'; res['note'] = str(f.result); return res
            if is_sym(ret) or ret != m + 1:
                res['status'] = 'violated'; res['key'] = 'C12:commitment-lines'; res['cex'] = dict(m=m)
                res['note'] = 'commitment-lines: TaprootCommitmentEnv::Description() yields %s listing lines for a control block of path length %d, but the commitment phase takes %d steps' % (ret, m, m + 1)
        return res
    argv, assume, syms = session_argv(ob)
    inputs = dict(syms=syms)
    fin = maindeb.run_main(E, argv, (1, 1, 1), None, assume, aux=dict(sym_control=(ob['kind'] == 'tapsession')))
    res['paths'] = len(fin); n = 0
    for f in fin:
        if f.result != ('exit', 1000):
            res['status'] = 'inconclusive'; res['note'] = 'main() did not reach the prompt: %r stderr=%r' % (f.result, bytes(x if not is_sym(x) else 63 for x in f.aux.get('out2', []))[:200]); return res
        n += walk(E, f, ob, res, inputs, None)
        if res['status'] != 'holds': break
    res['ref_cases'] = n; res['classes'] = {'session-states-checked': n}
    return res

def replay(lib, ob, cex):
    """native replay through the same shim entry points (real main() with kerl_run replaced is not possible natively: the check replays on the library level)"""
    if ob['kind'] == 'tcelines':
        m = ob['m']
        ret, _ = hlib.spec_native(lib, 'w_tce_desc_lines', [('in', [0xc0] + [1] * (32 + 32 * m)), ('u32', 33 + 32 * m), ('in', [2] * 32)])
        return ret != m + 1, 'native: Description() has %d lines for path length %d (commitment phase = %d steps)' % (ret, m, m + 1)
    return None, 'listing replay needs the interactive binary; see note'

def validate(E, lib):
    n = 0
    for m in (0, 1, 2):
        spec = [('in', [0xc0] + [1] * (32 + 32 * m)), ('u32', 33 + 32 * m), ('in', [2] * 32)]
        ret, _ = hlib.spec_native(lib, 'w_tce_desc_lines', spec)
        runs = hlib.spec_engine(E, 'w_tce_desc_lines', spec)
        if len(runs) != 1 or runs[0][1] != ret: raise EncoderMismatch('Description() line count: engine %r native %r' % (runs[0][1], ret))
        n += 1
    return n
