"""C13 - transaction decoding is lossless and identifiers are correct."""
import z3
import stubs, hlib, hashref, refscript as R, refexec, sesslib
from irsym import is_sym, bv, simp
from core import mkres, EncoderMismatch
import build as _b

ID = 'C13'
TITLE = 'UnserializeTransaction/SerializeTransaction round trip, field extraction, txid = SHA256d (UF) of the witness-stripped encoding, rejection of every strict prefix and of flag-byte corruptions, compact-size codec on all 9-byte strings / all uint64, the --tx amount prefix (ParseFixedPoint) on symbolic digits'
TUS = ['tx', 'instance', 'value', 'strenc', 'hash', 'sha256', 'uint256', 'script', 'dbgscript', 'interp', 'dbginterp', 'pubkey', 'ripemd160', 'sha1', 'base58', 'bech32']
SHIMS = ['txs']
NATIVE_TUS = _b.ALL_NATIVE + ['instance']
FUNCTIONS = ['UnserializeTransaction', 'SerializeTransaction', 'ReadCompactSize', 'WriteCompactSize', 'Unserialize/Serialize of vector<CTxIn>/vector<CTxOut>/CScript/witness stacks', 'CTransaction::ComputeHash / ComputeWitnessHash',
             'parse_tx (instance.cpp)', 'Instance::parse_transaction amount list', 'ParseFixedPoint', 'TryHex']
ASSUMPTIONS = ['SHA-256 compression uninterpreted on symbolic input', 'allocation never fails', 'structure bytes (counts, lengths, marker/flag) are concrete per shape, every other byte symbolic']
OUTSIDE = ['scripts of 65535/65536 bytes (thorough tier only)', 'trailing bytes after a complete encoding (parse_tx ignores them; the property speaks of well-formed encodings)', 'more than 2 inputs/outputs']
BOUNDS = 'tx shapes: 0..2 inputs x 0..2 outputs, script lengths {0,1,3,252,253}, witness absent / present (0..2 items of length 0..3, one shape with items of 253 and 252 bytes) / mixed; every strict prefix of the small shapes; flag byte symbolic; compact size: all byte strings of length 1,3,5,9 and all uint64; amounts: 0..4 integer digits, 0..8 fractional digits (symbolic)'

def setup(E):
    stubs.install_all(E)
    for n in ('_ZN15ECCVerifyHandleC1Ev', '_ZN15ECCVerifyHandleC2Ev', '_ZN15ECCVerifyHandleD1Ev', '_ZN15ECCVerifyHandleD2Ev'): E.stubs[n] = lambda E, st, fr, I, A: None

# ---- shapes: (ins=[(scriptSig_len, [witness item lens] or None)], outs=[spk_len], witness flag)
def shapes(tier):
    S = []
    S.append(dict(ins=[(0, None)], outs=[0]))
    S.append(dict(ins=[(3, None)], outs=[1, 3]))
    S.append(dict(ins=[(1, None), (0, None)], outs=[3]))
    S.append(dict(ins=[(0, [1, 2])], outs=[3]))
    S.append(dict(ins=[(0, [0]), (3, [])], outs=[1]))               # mixed: second input has an empty witness
    S.append(dict(ins=[(0, [3, 0]), (0, [1])], outs=[0, 1]))
    S.append(dict(ins=[(252, None)], outs=[253]))
    S.append(dict(ins=[(253, [3])], outs=[252]))
    S.append(dict(ins=[(1, None)], outs=[]))
    S.append(dict(ins=[(0, [253, 252])], outs=[1]))                # witness items at the compact-size boundary
    return S

def encode(shape, var):
    """serialisation of the shape with symbolic content; returns (bytes, fields dict, stripped bytes)"""
    wit = any(w for (_, w) in shape['ins'] if w is not None and len(w) > 0)
    haswit = any(w is not None for (_, w) in shape['ins'])
    ver = [var('ver%d' % i) for i in range(4)]; lock = [var('lock%d' % i) for i in range(4)]
    body_in = hashref.compact_size(len(shape['ins'])); ins = []
    for i, (sl, w) in enumerate(shape['ins']):
        h = [var('h%d_%d' % (i, k)) for k in range(32)]; n = [var('n%d_%d' % (i, k)) for k in range(4)]; ss = [var('ss%d_%d' % (i, k)) for k in range(sl)]; sq = [var('sq%d_%d' % (i, k)) for k in range(4)]
        body_in += h + n + hashref.compact_size(sl) + ss + sq
        ws = [[var('w%d_%d_%d' % (i, j, k)) for k in range(L)] for j, L in enumerate(w or [])]
        ins.append(dict(hash=h, n=n, scriptSig=ss, seq=sq, wit=ws))
    body_out = hashref.compact_size(len(shape['outs'])); outs = []
    for i, pl in enumerate(shape['outs']):
        v = [var('v%d_%d' % (i, k)) for k in range(8)]; pk = [var('pk%d_%d' % (i, k)) for k in range(pl)]
        body_out += v + hashref.compact_size(pl) + pk; outs.append(dict(value=v, spk=pk))
    stripped = ver + body_in + body_out + lock
    if haswit:
        wb = []
        for d in ins:
            wb += hashref.compact_size(len(d['wit']))
            for it in d['wit']: wb += hashref.compact_size(len(it)) + it
        full = ver + [0x00, 0x01] + body_in + body_out + wb + lock
    else: full = stripped
    return full, dict(ver=ver, lock=lock, ins=ins, outs=outs), stripped, wit, haswit

def parse_reply(E, f, raw):
    rp = sesslib.Rep(lambda off, n: (hlib.le(raw[off:off + n]) if n > 1 else raw[off]), (lambda t: hlib.uniq(E, f, t)) if f is not None else None)
    st = rp.u32()
    if not is_sym(st) and st != 0: return dict(ok=0)
    d = dict(ok=1, unread=rp.u32(), ver=rp.u32(), lock=rp.u32())
    nin = rp.cu32(); d['ins'] = []
    for _ in range(nin):
        e = dict(hash=rp.bytes(), n=rp.u32(), scriptSig=rp.bytes(), seq=rp.u32())
        e['wit'] = [rp.bytes() for _ in range(rp.cu32())]; d['ins'].append(e)
    nout = rp.cu32(); d['outs'] = [dict(value=rp.u64(), spk=rp.bytes()) for _ in range(nout)]
    d['reser'] = rp.bytes(); d['txid'] = rp.bytes(); d['wtxid'] = rp.bytes()
    return d

def obligations(tier, seed):
    obs = []
    for i, s in enumerate(shapes(tier)):
        obs.append(dict(name='roundtrip/shape%d' % i, kind='roundtrip', shape=s, si=i))
    for i in (0, 3, 4, 8):
        s = shapes(tier)[i]
        full = encode(s, lambda n: 0)[0]
        for k in range(0, len(full)): obs.append(dict(name='truncate/shape%d/%d' % (i, k), kind='truncate', shape=s, si=i, cut=k))
    for i in (3, 0): obs.append(dict(name='flagbyte/shape%d' % i, kind='flag', shape=shapes(tier)[i], si=i))
    obs.append(dict(name='superfluous-witness', kind='superfluous'))
    for L in (1, 3, 5, 9): obs.append(dict(name='compact/read/L%d' % L, kind='cread', L=L))
    obs.append(dict(name='compact/write', kind='cwrite'))
    # two symbolic digits followed by k zeros: every count of trailing zeros up to the 10^18 limit (ParseFixedPoint scales by 10^(trailing zeros): seed C13-5 had one wrong power of ten)
    for kz in range(1, 11):
        obs.append(dict(name='amount/2-digits-then-%d-zeros' % kz, kind='amount', ni=2, nf=0, zeros=kz))
        if kz < 9 and (tier != 'quick' or kz in (1, 4, 8)): obs.append(dict(name='amount/2-digits-then-%d-zeros.2-digits' % kz, kind='amount', ni=2, nf=2, zeros=kz))
    for (ni, nf) in ((1, 0), (1, 1), (2, 2), (1, 3), (0, 1), (3, 0)) + (((1, 5), (2, 4)) if tier != 'quick' else ()):
        obs.append(dict(name='amount/%d.%d' % (ni, nf), kind='amount', ni=ni, nf=nf))
    for s in ['0.1,0.002', '1', '', 'abc', '1.', '.5', '-1', '1e3', '0.000000001', '0.12345678', '21000000.00000000', '0.123456780', '0.123456789', '92233720368.54775807', '1,2,3',
              # long amount strings (15 / 16 / 17+ characters: a fixed copy buffer cuts them - seed C13-4)
              '123456.12345678', '1234567.12345678', '20999999.99999999', '1234567.123456789', '-1234567.1234567', '000000001.00000001', '12345678901.5', '1234567.12345678,0.00000001']: obs.append(dict(name='amountlit/' + s, kind='amountlit', s=s))
    obs.append(dict(name='hex/shape1', kind='hex', shape=shapes(tier)[1], si=1))
    return obs

MINTX = '01000000' + '01' + '00' * 32 + '00000000' + '00' + 'ffffffff' + '00' + '00000000'      # minimal valid tx used behind the amount prefix

def prep(ob, V=None):
    sym = V is None
    def var(n, bits=8): return z3.BitVec(n, bits) if sym else V.get(n, 0)
    k = ob['kind']
    def crash(f): return ('crash', f.result[1] if f.result else 'none', f.result[2] if f.result and len(f.result) > 2 else '')
    if k in ('roundtrip', 'truncate', 'flag', 'superfluous'):
        if k == 'superfluous':
            shape = dict(ins=[(0, [])], outs=[1])
        else: shape = ob['shape']
        full, F, stripped, wit, haswit = encode(shape, var)
        data = list(full)
        if k == 'truncate': data = data[:ob['cut']]
        inputs = dict(data=[b for b in data])
        assume = []
        if k == 'flag':
            fb = var('flagbyte'); assume = ([fb != 1] + ([(fb & 1) == 0] if not haswit else [])) if sym else []
            if haswit: data[5] = fb
            else: data = data[:4] + [0x00, fb] + data[4:]
            inputs = dict(data=list(data))
        def io(E, f, ret, outs):
            if ret is None: return crash(f)
            n = hlib.uniq(E, f, ret) if f is not None else ret
            d = parse_reply(E, f, outs[0](n))
            if not d['ok']: return dict(ok=0)
            return d
        def ref(ctx):
            if k == 'truncate': return dict(ok=0)
            if k == 'superfluous': return dict(ok=0)                  # witness flag set but every witness stack empty
            if k == 'flag':
                # dummy 00 + flag byte f: f == 0 means "no inputs" (then vout is not read and the remaining bytes are the lock time); other values: unknown optional data
                return dict(ok='*') if False else dict(ok=0) if not haswit or True else None
            if haswit and not wit: return dict(ok=0)
            if not shape['ins'] and not haswit:
                # an encoding with zero inputs cannot be told from the extended-format marker: not a well-formed transaction encoding
                raise refexec.RefAbort('zero-input legacy encoding is ambiguous with the segwit marker')
            d = dict(ok=1, unread=0, ver=hlib.le(F['ver']), lock=hlib.le(F['lock']),
                     ins=[dict(hash=e['hash'], n=hlib.le(e['n']), scriptSig=e['scriptSig'], seq=hlib.le(e['seq']), wit=e['wit']) for e in F['ins']],
                     outs=[dict(value=hlib.le(o['value']), spk=o['spk']) for o in F['outs']],
                     reser=full, txid=hashref.hash256(stripped), wtxid=hashref.hash256(full) if wit else hashref.hash256(stripped))
            return d
        if k == 'flag':
            def ref(ctx):
                fb_ = data[5]
                if ctx.branch(R.B(fb_) == 0): raise refexec.RefAbort('flag byte 0: reads as a transaction without inputs (ambiguous)')
                return dict(ok=0)
        return 'w_tx_parse', [('in', data), ('u32', len(data)), ('out', 4 * len(full) + 400)], io, ref, assume, inputs
    if k == 'cread':
        data = [var('b%d' % i) for i in range(ob['L'])]
        def io(E, f, ret, outs):
            if ret is None: return crash(f)
            if ret != 0: return dict(ok=0)
            return dict(ok=1, val=hlib.le(outs[0](8)), used=hlib.le(outs[1](4)))
        def ref(ctx):
            L = ob['L']; b0 = R.B(data[0])
            def need(n):
                if L < n: raise R.Fail('eof')
            try:
                if ctx.branch(z3.ULT(b0, 253)): return dict(ok=1, val=z3.ZeroExt(56, b0), used=1)
                if ctx.branch(b0 == 253):
                    need(3); v = z3.ZeroExt(48, hlib.le(data[1:3]))
                    if ctx.branch(z3.ULT(v, 253)): raise R.Fail('noncanonical')
                    return dict(ok=1, val=v, used=3)
                if ctx.branch(b0 == 254):
                    need(5); v = z3.ZeroExt(32, hlib.le(data[1:5]))
                    if ctx.branch(z3.ULT(v, 0x10000)): raise R.Fail('noncanonical')
                    if ctx.branch(z3.UGT(v, 0x02000000)): raise R.Fail('too large')
                    return dict(ok=1, val=v, used=5)
                need(9); v = hlib.le(data[1:9])
                if ctx.branch(z3.ULT(v, 0x100000000)): raise R.Fail('noncanonical')
                raise R.Fail('too large')            # above the 0x02000000 object-size cap
            except R.Fail: return dict(ok=0)
        return 'w_read_compact', [('in', data), ('u32', ob['L']), ('out', 8), ('out', 4)], io, ref, [], dict(data=data)
    if k == 'cwrite':
        v = var('v', 64)
        def io(E, f, ret, outs):
            if ret is None: return crash(f)
            n = hlib.uniq(E, f, ret) if f is not None else ret
            return dict(bytes=outs[0](n))
        def ref(ctx):
            x = R.B(v, 64)
            if ctx.branch(z3.ULT(x, 253)): return dict(bytes=[z3.simplify(z3.Extract(7, 0, x))])
            if ctx.branch(z3.ULE(x, 0xffff)): return dict(bytes=[253] + [z3.simplify(z3.Extract(8 * i + 7, 8 * i, x)) for i in range(2)])
            if ctx.branch(z3.ULE(x, 0xffffffff)): return dict(bytes=[254] + [z3.simplify(z3.Extract(8 * i + 7, 8 * i, x)) for i in range(4)])
            return dict(bytes=[255] + [z3.simplify(z3.Extract(8 * i + 7, 8 * i, x)) for i in range(8)])
        return 'w_write_compact', [('i64', v), ('out', 16)], io, ref, [], dict(v=v)
    if k in ('amount', 'amountlit'):
        assume = []
        if k == 'amount':
            di = [var('i%d' % i) for i in range(ob['ni'])]; df = [var('f%d' % i) for i in range(ob['nf'])]
            if sym:
                for c in di + df: assume.append(z3.And(z3.UGE(c, 48), z3.ULE(c, 57)))
                if len(di) > 1: assume.append(di[0] != 48)
            chars = di + [48] * ob.get('zeros', 0) + ([ord('.')] + df if (ob['nf'] or False) else [])
            inputs = dict(di=di, df=df)
        else:
            chars = list(ob['s'].encode()); inputs = {}; di = df = None
        txt = chars + [ord(':')] + list(MINTX.encode()) + [0]
        def io(E, f, ret, outs):
            if ret is None: return crash(f)
            n = hlib.uniq(E, f, ret) if f is not None else ret
            raw = outs[0](n); st = hlib.le(raw[0:4])
            if is_sym(st): st = hlib.uniq(E, f, st)
            if st != 1: return dict(ok=0, amounts='*')
            cnt = hlib.le(raw[4:8])
            if is_sym(cnt): cnt = hlib.uniq(E, f, cnt)
            return dict(ok=1, amounts=[hlib.le(raw[8 + 8 * i: 16 + 8 * i]) for i in range(cnt)])
        def ref(ctx):
            if k == 'amountlit':
                import decimal
                out = []
                if ob['s'] == '': return dict(ok='*', amounts='*')
                for part in ob['s'].split(','):
                    import re
                    if not re.fullmatch(r'-?(0|[1-9][0-9]*)(\.[0-9]+)?([eE][+-]?[0-9]+)?', part): return dict(ok=0, amounts='*')
                    sat = decimal.Decimal(part) * 100000000
                    if sat != sat.to_integral_value() or abs(sat) >= 10**18: return dict(ok=0, amounts='*')
                    out.append(int(sat) & (2**64 - 1))
                return dict(ok=1, amounts=out + ([0] if False else []))
            if ob['ni'] == 0: return dict(ok=0, amounts='*')                        # ".5": a digit is required before the point
            if ob['nf'] > 8:
                # more than 8 fractional digits: representable only if the extra digits are zero
                extra = df[8:]
                if not ctx.branch(z3.And(*[R.B(c) == 48 for c in extra])): return dict(ok=0, amounts='*')
            v = z3.BitVecVal(0, 128)
            for c in di + [48] * ob.get('zeros', 0): v = v * 10 + z3.ZeroExt(120, R.B(c) - 48)
            frac = (df + [48] * 8)[:8]
            for c in frac: v = v * 10 + z3.ZeroExt(120, R.B(c) - 48)
            if ctx.branch(z3.UGE(v, z3.BitVecVal(10 ** 18, 128))): return dict(ok=0, amounts='*')          # ParseFixedPoint's range: below 10^18 units
            return dict(ok=1, amounts=[z3.simplify(z3.Extract(63, 0, v))])
        return 'w_parse_amounts', [('in', txt), ('out', 64)], io, ref, assume, inputs
    if k == 'hex':
        full, F, stripped, wit, haswit = encode(ob['shape'], var)
        # hex text of the encoding with symbolic bytes: characters are functions of the bytes (lower case)
        import C07
        chars = C07.to_hex(full)
        def io(E, f, ret, outs):
            if ret is None: return crash(f)
            n = hlib.uniq(E, f, ret) if f is not None else ret
            raw = outs[0](n); st = hlib.le(raw[0:4])
            if is_sym(st): st = hlib.uniq(E, f, st)
            if st != 0: return dict(ok=0)
            return dict(ok=1, txid=raw[n - 32:n])
        return 'w_parse_tx_hex', [('in', chars + [0]), ('out', 4 * len(full) + 400)], io, lambda ctx: dict(ok=1, txid=hashref.hash256(stripped)), [], dict(data=full)
    raise Exception(k)

def run(E, ob):
    fn, spec, io, ref, assume, inputs = prep(ob)
    return hlib.flat_check(E, ob['name'], fn, spec, io, ref, assume, inputs, lambda a, b: 'C13:' + ob['kind'] + (':' + ob.get('s', '') if ob['kind'] == 'amountlit' else ''))

def values(ob, cex):
    V = {}
    if 'v' in cex: V['v'] = cex['v']
    for i, c in enumerate(cex.get('di', [])): V['i%d' % i] = c
    for i, c in enumerate(cex.get('df', [])): V['f%d' % i] = c
    if ob['kind'] == 'cread':
        for i, b in enumerate(cex.get('data', [])): V['b%d' % i] = b
    return V

def replay(lib, ob, cex):
    k = ob['kind']
    if k in ('roundtrip', 'truncate', 'flag', 'superfluous', 'hex'):
        data = cex['data']
        import hashlib
        if k == 'hex':
            ret, outs = hlib.spec_native(lib, 'w_parse_tx_hex', [('in', list(bytes(data).hex().encode()) + [0]), ('out', 4 * len(data) + 400)])
            raw = outs[0](ret); return None, 'native parse_tx status %d' % hlib.le(raw[0:4])
        ret, outs = hlib.spec_native(lib, 'w_tx_parse', [('in', data), ('u32', len(data)), ('out', 4 * len(data) + 800)])
        d = parse_reply(None, None, outs[0](ret))
        if k in ('truncate', 'superfluous', 'flag'): return bool(d['ok']), 'native: %s encoding %s was %s' % (k, bytes(data).hex(), 'ACCEPTED' if d['ok'] else 'rejected')
        if not d['ok']: return True, 'native: well-formed encoding %s rejected' % bytes(data).hex()
        bad = bytes(d['reser']) != bytes(data)
        return bad, 'native: re-serialisation %s vs input %s' % (bytes(d['reser']).hex(), bytes(data).hex())
    fn, spec, io, ref, assume, inputs = prep(ob, values(ob, cex))
    ret, outs = hlib.spec_native(lib, fn, spec); nat = io(None, None, ret, outs)
    cases, _ = refexec.explore(ref); s = z3.Solver(); s.check(); ro = sesslib.concretize(s.model(), cases[0][1])
    return refexec.differs(nat, ro) is not False, 'native: %s | reference: %s' % (sesslib.short(nat), sesslib.short(ro))

def validate(E, lib):
    import random
    rnd = random.Random(11); n = 0
    for ob in [o for o in obligations('quick', 0) if o['kind'] in ('roundtrip', 'cwrite', 'amountlit', 'cread')][:14]:
        V = {}
        class RV(dict):
            def get(s, k, d=0): return rnd.randrange(256) if k != 'v' else rnd.getrandbits(40)
        fn, spec, io, ref, assume, inputs = prep(ob, RV())
        ret, outs = hlib.spec_native(lib, fn, spec); nat = io(None, None, ret, outs)
        runs = hlib.spec_engine(E, fn, spec)
        if len(runs) != 1 or runs[0][1] is None: raise EncoderMismatch('engine concrete run failed on %s: %r' % (ob['name'], [r[0].result for r in runs]))
        eng = io(E, runs[0][0], runs[0][1], runs[0][2])
        if refexec.differs(eng, nat) is not False: raise EncoderMismatch('engine %s != native %s on %s' % (sesslib.short(eng), sesslib.short(nat), ob['name']))
        n += 1
    return n
