"""C10 - resource limits are enforced at exactly the consensus bounds (boundary shapes of the one-step harness + construction + script switches)."""
import z3
import C01 as base
import C02
import stubs, sesslib, refscript as R, refexec
from irsym import is_sym
from core import mkres, EncoderMismatch

ID = 'C10'
TITLE = 'limit boundaries L-1/L/L+1: 520-byte pushes, 1000 stack+altstack items, 201 counted ops (nOpCount symbolic), 10,000-byte scripts at session construction, op-count reset at script switches; tapscript exemptions'
TUS = base.TUS; SHIMS = base.SHIMS; NATIVE_TUS = base.NATIVE_TUS
FUNCTIONS = ['StepScript(ScriptExecutionEnvironment&,...): push-size, op-count, stack-size checks', 'InterpreterEnv::InterpreterEnv (script-size check)', 'StepScript(InterpreterEnv&) script switch (op-count reset)']
ASSUMPTIONS = base.ASSUMPTIONS + ['multisig obligations use the signature oracle of C02 (uninterpreted)']
OUTSIDE = ['limits reached through multi-step histories (covered inductively by the one-step pre-state being arbitrary)']
BOUNDS = 'numeric operands of 4 / 5 bytes in every position of every arithmetic opcode, 4 / 5 / 6 bytes for CLTV / CSV; push payload 519/520/521 (PUSHDATA2/4) executed and unexecuted; stack+alt totals 998..1001 reached by 14 growing opcodes with 0..1000 items on either stack; nOpCount symbolic 0..201 for every opcode above OP_16; script sizes 9999/10000/10001 x 3 script versions'

def setup(E): C02.setup(E)

GROW = {0x51: 0, 0x00: 0, 0x76: 1, 0x6e: 2, 0x6f: 3, 0x70: 4, 0x73: 1, 0x74: 0, 0x78: 2, 0x7d: 2, 0x82: 1, 0x6c: 0, 0x6b: 1, 0x4f: 0, 0x01: 0, 0x75: 1, 0x7c: 2}   # opcode -> arity

NUMERIC_OPS = {R.OP[n] for n in ('OP_1ADD', 'OP_1SUB', 'OP_NEGATE', 'OP_ABS', 'OP_NOT', 'OP_0NOTEQUAL', 'OP_ADD', 'OP_SUB', 'OP_BOOLAND', 'OP_BOOLOR', 'OP_NUMEQUAL', 'OP_NUMEQUALVERIFY', 'OP_NUMNOTEQUAL',
                                   'OP_LESSTHAN', 'OP_GREATERTHAN', 'OP_LESSTHANOREQUAL', 'OP_GREATERTHANOREQUAL', 'OP_MIN', 'OP_MAX', 'OP_WITHIN', 'OP_PICK', 'OP_ROLL')}

def obligations(tier, seed):
    obs = []
    def add(kind='step', **kw):
        kw.setdefault('alt', 0); kw.setdefault('vf', (0, None)); kw.setdefault('extra', 0); kw.setdefault('prefix', 0); kw.setdefault('checker', 0); kw.setdefault('mode', 0); kw['pid'] = 'C10'; kw['kind'] = kind
        if kind == 'step':
            if kw['op'] < 0x4c: kw.setdefault('plen', kw['op'])
            kw['name'] = 'step/op%02x/sv%d/st%s/pad%d/altpad%d/alt%d/vf%s/pl%s' % (kw['op'], kw['sv'], '.'.join(map(str, kw['lens'])), kw.get('pad', 0), kw.get('altpad', 0), kw['alt'], '%d-%s' % kw['vf'], kw.get('plen', ''))
            if kw['checker']: kw['name'] += '/ck%d' % kw['checker']
        obs.append(kw)
    for sv in (R.BASE, R.WITNESS_V0, R.TAPSCRIPT):
        # 520-byte element limit
        for o, pls in ((0x4d, (519, 520, 521)), (0x4e, (520, 521)), (0x4c, (255,))):
            for pl in pls:
                add(op=o, sv=sv, lens=(), plen=pl)
                add(op=o, sv=sv, lens=(), plen=pl, vf=(1, 0))
        # 1000-item limit, reached by every growing opcode, items split between the two stacks
        for o, k in GROW.items():
            for total in (998, 999, 1000):
                splits = [(total, 0), (0, total), (total // 2, total - total // 2)] if tier != 'quick' else [(total, 0), (1, total - 1)]
                for (sd, ad) in splits:
                    if sd < k: continue
                    need_alt = 1 if o == 0x6c else 0
                    if ad < need_alt: continue
                    add(op=o, sv=sv, lens=tuple([1] * k), pad=sd - k, altpad=ad - need_alt, alt=need_alt)
            add(op=o, sv=sv, lens=tuple([1] * k), pad=1000 - k, vf=(1, 0))          # unexecuted at the limit
        # 201 counted operations: every opcode above OP_16, nOpCount symbolic
        for o in range(0x61, 0x100):
            if o in R.SIGOPS or (sv == R.TAPSCRIPT and R.is_op_success(o)): continue
            k = base.ARITY.get(o, 0)
            add(op=o, sv=sv, lens=tuple([1] * k))
            add(op=o, sv=sv, lens=tuple([1] * k), vf=(1, 0))
        # numeric operand size: 4 bytes accepted / 5 refused for the arithmetic opcodes, 5 accepted / 6 refused for the lock-time opcodes (all operand bytes symbolic)
        for o in sorted(NUMERIC_OPS):
            k = base.ARITY.get(o, 0)
            if k == 0: continue
            for L in (4, 5):
                for pos in range(k):                       # the long operand in each position, the others one byte
                    add(op=o, sv=sv, lens=tuple(L if i == pos else 1 for i in range(k)))
        for o in sorted(base.LOCK):
            for L in (4, 5, 6):
                for ck in (0, 1): add(op=o, sv=sv, lens=(L,), checker=ck)
        # multisig key count: 19/20/21 keys, and its charge on the operation count (nOpCount symbolic), followed by one more counted opcode
        if sv != R.TAPSCRIPT:
            for o in (0xae, 0xaf):
                for nk in (19, 20, 21):
                    obs.append(dict(kind='msig', name='msig/op%02x/sv%d/keys%d' % (o, sv, nk), op=o, sv=sv, lens=tuple([0, 0] + [0] * nk + [1]), cvals={'1': [], str(2 + nk): [nk]}, vf=(0, None), tail=0, mode=0, pid='C10'))
                obs.append(dict(kind='msig', name='msig/op%02x/sv%d/1of2' % (o, sv), op=o, sv=sv, lens=(0, 9, 1, 33, 33, 1), cvals={'2': [1], '5': [2]}, vf=(0, None), tail=0, mode=0, pid='C10'))
        # script size at construction
        for n in (9999, 10000, 10001):
            obs.append(dict(kind='ctor', name='ctor/sv%d/size%d' % (sv, n), sv=sv, size=n, pid='C10'))
        # op-count reset when the session switches scripts
        for end in ('succ', 'p2sh'):
            obs.append(dict(kind='switch', name='switch/sv%d/%s' % (sv, end), sv=sv, end=end, pid='C10'))
    return obs

def run(E, ob):
    if ob['kind'] == 'step': return base.run(E, ob)
    if ob['kind'] == 'msig':
        o2 = dict(ob); o2['kind'] = 'sigop'; r = C02.run(E, o2)
        if r.get('key'): r['key'] = r['key'].replace('C02:', 'C10:')
        return r
    if ob['kind'] == 'ctor': return run_ctor(E, ob)
    return run_switch(E, ob)

def ctor_req(ob, V=None):
    b0 = z3.BitVec('b0', 8) if V is None else V.get('b0', 0)
    flags = z3.BitVec('flags', 32) if V is None else V.get('flags', 0)
    script = [b0] + [0x61] * (ob['size'] - 1)
    return sesslib.sess_request(0, flags, ob['sv'], [], script, 0, 0, (0, 0, 0), None), dict(b0=b0, flags=flags)

def run_ctor(E, ob):
    req, inputs = ctor_req(ob)
    # only the constructor's verdict is observed: mode 9 does nothing after construction
    req[0:4] = [9, 0, 0, 0]
    out, fin = sesslib.engine_call(E, req)
    def io(f):
        rp = sesslib.Rep(lambda off, n: E.load(f, out + off, n))
        op_, err = rp.u32(), rp.u32()
        return dict(operational=op_, err=err if not (not is_sym(op_) and op_) else 'n/a')
    def ref(ctx):
        too_big = ob['size'] > R.MAX_SCRIPT and ob['sv'] in (R.BASE, R.WITNESS_V0)        # tapscript is exempt from the script-size limit (BIP342)
        return dict(operational=0, err=R.ERR('SCRIPT_SIZE')) if too_big else dict(operational=1, err='n/a')
    return sesslib.diff_paths(E, ob['name'], fin, io, ref, [], inputs, lambda a, b: 'C10:ctor:sv%d:size%d' % (ob['sv'], ob['size']))

def switch_req(ob, V=None):
    def var(n, bits): return z3.BitVec(n, bits) if V is None else V.get(n, 0)
    nop = var('nop', 32)
    if ob['end'] == 'succ':
        script = [0x51]; pre = dict(nop=nop, pc=1, successor=[0x76, 0x51], p2sh=0); stack = [[1]]
    else:
        script = [0xa9, 0x14] + [var('h%d' % i, 8) for i in range(20)] + [0x87]; stack = [[1]]
        pre = dict(nop=nop, pc=len(script), p2sh=1, p2shstack=[[var('q0', 8)], [0x51, 0x52]])
    flags = var('flags', 32)
    return sesslib.sess_request(1, flags, ob['sv'], stack, script, 0, 0, (0, 0, 0), pre), dict(nop=nop, flags=flags, q0=var('q0', 8)), ([z3.ULE(nop, 201)] if V is None else [])

def run_switch(E, ob):
    req, inputs, assume = switch_req(ob)
    out, fin = sesslib.engine_call(E, req, assume=assume)
    def io(f):
        rep = sesslib.engine_reply(E, f, out, 1)
        return dict(ret=rep['ret'], nop=rep['post']['nop'], script=rep['post']['script'], pc=rep['post']['pc'])
    def ref(ctx):
        new = [0x76, 0x51] if ob['end'] == 'succ' else [0x51, 0x52]
        return dict(ret=1, nop=0, script=new, pc=0)
    return sesslib.diff_paths(E, ob['name'], fin, io, ref, assume, inputs, lambda a, b: 'C10:switch:%s' % ob['end'])

def replay(lib, ob, cex):
    if ob['kind'] == 'step': return base.replay(lib, ob, cex)
    if ob['kind'] == 'msig':
        o2 = dict(ob); o2['kind'] = 'sigop'; return C02.replay(lib, o2, cex)
    if ob['kind'] == 'ctor':
        req, _ = ctor_req(ob, cex); req[0:4] = [9, 0, 0, 0]
        rep = sesslib.native_call(lib, req, 9)
        too_big = ob['size'] > R.MAX_SCRIPT and ob['sv'] in (R.BASE, R.WITNESS_V0)
        bad = (rep['operational'] == 0) != too_big
        return bad, 'native: script of %d bytes, sigversion %d: operational=%d err=%d; expected operational=%d' % (ob['size'], ob['sv'], rep['operational'], rep['ctor_err'], 0 if too_big else 1)
    req, _, _ = switch_req(ob, cex)
    rep = sesslib.native_call(lib, req, 1)
    return rep['post']['nop'] != 0 or not rep['ret'], 'native: after script switch nOpCount=%d ret=%d' % (rep['post']['nop'], rep['ret'])

def validate(E, lib): return base.validate(E, lib)
