"""C14 - value transforms compute their defined functions and invert each other."""
import z3, os, ctypes, tempfile
import stubs, procenv, hlib, hashref, refscript as R, refexec, sesslib
from irsym import is_sym, bv, simp
from core import mkres, EncoderMismatch
import build as _b
import C07

ID = 'C14'
TITLE = 'Value::do_exec transforms (inline form) and fn_tf (command form, printed output) against their definitions: SHA-256/RIPEMD-160/compositions/tagged hash over uninterpreted compression functions, reverse, len, compact-size prefix, hex/int, 256-bit add/sub, base58(check) and bech32(m) encode-decode identity and corruption rejection'
TUS = ['value', 'functions', 'instance', 'kerl', 'script', 'dbgscript', 'dbginterp', 'interp', 'strenc', 'hash', 'sha256', 'ripemd160', 'sha1', 'uint256', 'arith', 'base58', 'bech32', 'pubkey', 'tx']
SHIMS = ['valtf']
NATIVE_TUS = _b.ALL_NATIVE + ['instance', 'functions', 'kerl']
FUNCTIONS = ['Value::do_exec', 'Value::do_sha256/do_ripemd160/do_hash256/do_hash160/do_tagged_hash', 'Value::do_reverse/do_len/do_prefix_compact_size', 'Value::hex_str/int_value', 'Value::do_add/do_sub, arith_uint256', 'fn_tf + tfs table', 'kerl_make_argcv',
             'EncodeBase58(Check)/DecodeBase58(Check)', 'bech32::Encode/Decode', 'Value(const char*) inline-function parser']
ASSUMPTIONS = ['hash compression functions uninterpreted on symbolic input (the digest arithmetic itself is outside; wiring, padding, composition are inside)', 'allocation never fails', 'printf-family output captured by the process-environment model']
OUTSIDE = ['base58check round trips THROUGH the digit conversion (the 4 checksum bytes are uninterpreted-hash terms that the base-58 long division must then divide: no verdict within 240 s): the checksum logic is decided with the digit conversion stubbed, the digit conversion without checksum', 'Jacobi symbol, pubkey combine/tweak, verify-sig (libsecp256k1 / 256-bit data-dependent loops)', 'base58 payloads longer than 2 bytes (symbolic division by 58 in nested loops: 3 bytes returns unknown after 80 s)', 'bech32 round trips beyond 2 data symbols in quick / 3 in thorough (n=3 exceeds 240 s); corruption detection is decided for 0 and 2 data symbols', 'CPU-specific SHA back ends']
BOUNDS = 'hash transforms: message lengths {0,1,31,32,55,56,64}; reverse/len/prefix: lengths {0,1,2,5,252,253}; add/sub: 32-byte operands symbolic without group, low 6 bytes symbolic with a symbolic group, 32-byte residues symbolic with the groups n, p (secp256k1) and 2^256-1; base58: payload 0..3 bytes incl. leading zeros; bech32/bech32m: 0..6 five-bit symbols, every single-character substitution (any printable character, either case) at every position'

def setup(E):
    stubs.install_all(E)
    procenv.install(E)
    for n in ('_ZN15ECCVerifyHandleC1Ev', '_ZN15ECCVerifyHandleC2Ev', '_ZN15ECCVerifyHandleD1Ev', '_ZN15ECCVerifyHandleD2Ev'): E.stubs[n] = lambda E, st, fr, I, A: None
    E.stubs.pop('_Z6HexStrB5cxx114SpanIKhE', None)

def obligations(tier, seed):
    obs = []
    for fun in ('sha256', 'ripemd160', 'hash256', 'hash160'):
        for L in (0, 1, 31, 32, 55, 56, 64): obs.append(dict(name='inline/%s/L%d' % (fun, L), kind='hash', fun=fun, L=L))
        obs.append(dict(name='cmd/%s/L3' % fun, kind='cmdhash', fun=fun, L=3))
    for L in (0, 1, 2, 5): obs.append(dict(name='inline/reverse/L%d' % L, kind='reverse', L=L))
    for L in (0, 1, 5, 252, 253): obs.append(dict(name='inline/prefix_compact_size/L%d' % L, kind='prefix', L=L))
    # the 2-byte / 4-byte boundary of the compact size (seed C14-5: 65536 got the 2-byte form); only the first and last byte of the value are symbolic
    for L in (254, 256, 65535, 65536, 65537): obs.append(dict(name='inline/prefix_compact_size/big/L%d' % L, kind='prefixbig', L=L, timeout_s=900))
    for L in (0, 1, 5): obs.append(dict(name='cmd/len/L%d' % L, kind='cmdlen', L=L))
    for L in (0, 1, 2, 4): obs.append(dict(name='inline/hex/L%d' % L, kind='hex', L=L)); obs.append(dict(name='inline/int/L%d' % L, kind='int', L=L))
    for fun in ('add', 'sub'):
        for grp in (0, 1): obs.append(dict(name='inline/%s/group%d' % (fun, grp), kind='arith', fun=fun, grp=grp))
        # a modulus above 2^255 (the sum can carry out of bit 255): secp256k1 group order / field prime / 2^256-1, residues fully symbolic (seed C14-1)
        for gname in ('n', 'p', 'max'):
            lo = 0 if (fun == 'add' or tier != 'quick') else 12          # sub = add(a, g - b, g): the extra 256-bit subtraction makes the fully symbolic form exceed the quick budget (measured > 240 s)
            obs.append(dict(name='inline/%s/group-%s%s' % (fun, gname, '/low%dfixed' % lo if lo else ''), kind='arith', fun=fun, grp=2, gname=gname, lowfixed=lo))
    for tagl in (3, 7): obs.append(dict(name='inline/tagged_hash/tag%d' % tagl, kind='tagged', tagl=tagl, L=5))
    obs.append(dict(name='expr/sha256(0x..)', kind='expr', fun='sha256', L=2))
    obs.append(dict(name='expr/hash160(0x..)', kind='expr', fun='hash160', L=3))
    for L in (0, 1, 2):
        obs.append(dict(name='base58/roundtrip/L%d/chk0' % L, kind='b58', L=L, chk=0))
    # long payloads (digit-buffer sizing: 138/100 digits per byte): all bytes 0xff (the largest value of that length), encode then decode; the last byte symbolic where that still decides
    for L in ((24, 25, 52, 63) if tier == 'quick' else (24, 25, 37, 38, 52, 63, 93, 99, 100)): obs.append(dict(name='base58/roundtrip-long/L%d' % L, kind='b58long', L=L, symlast=0))          # at most 100 bytes: the shim calls the decoder with that limit, longer payloads are refused by design
    for L in ((8,) if tier == 'quick' else (8, 52)): obs.append(dict(name='base58/roundtrip-long/L%d/last-byte-symbolic' % L, kind='b58long', L=L, symlast=1))          # L = 52: 490 s
    # base58 decoding of ARBITRARY short strings (alphabet membership, leading '1's, surrounding white space, digit values), not only of encoder output
    for n in (1, 2) if tier == 'quick' else (1, 2, 3): obs.append(dict(name='base58/decode-any/n%d' % n, kind='b58dec', n=n))
    # base58check: the checksum logic on its own (the base-58 digit conversion is cut out by a stub, so payload and checksum bytes can be fully symbolic)
    for L in (0, 1, 20, 21, 33): obs.append(dict(name='base58check/decode-checksum/L%d' % L, kind='b58chk_dec', L=L)); obs.append(dict(name='base58check/encode-checksum/L%d' % L, kind='b58chk_enc', L=L))
    # address <-> scriptPubKey conversion (P2PKH): same stubs, the 20-byte hash / decoded payload symbolic
    obs.append(dict(name='address/scriptpubkey-to-addr', kind='spk2addr', L=25)); obs.append(dict(name='address/scriptpubkey-to-addr/24-bytes', kind='spk2addr', L=24)); obs.append(dict(name='address/scriptpubkey-to-addr/26-bytes', kind='spk2addr', L=26))
    for L in (20, 21, 22): obs.append(dict(name='address/addr-to-scriptpubkey/payload%d' % L, kind='addr2spk', L=L))
    for n in (0, 1) if tier == 'quick' else (0, 1, 2, 3):
        for m in (0, 1): obs.append(dict(name='bech32/roundtrip/n%d/m%d' % (n, m), kind='bech', n=n, m=m))
    # human-readable parts of 1-3 characters, each one of '1', 'a', '~' - so it may contain the separator character '1' (BIP173: the LAST '1' separates; seed C14-6 took the first)
    for hl in (1, 2, 3):
        for m in (0, 1): obs.append(dict(name='bech32/roundtrip-hrp/hrp%d/m%d' % (hl, m), kind='bechhrp', n=1 if hl == 1 else 0, m=m, hl=hl))
    for m in (0, 1):
        for n in (0, 1) if tier == 'quick' else (0, 2):
            L = 3 + n + 6
            for pos in range(3, L): obs.append(dict(name='bech32/corrupt/n%d/m%d/pos%d' % (n, m, pos), kind='bechcorrupt', n=n, m=m, pos=pos))
    return obs

BIGGROUPS = dict(n=0xFFFFFFFFFFFFFFFFFFFFFFFFFFFFFFFEBAAEDCE6AF48A03BBFD25E8CD0364141, p=2**256 - 2**32 - 977, max=2**256 - 1)
CHARSET = 'qpzry9x8gf2tvdw0s3jn54khce6mua7l'
def polymod(vals):
    """BIP173 polymod over 5-bit terms (30-bit accumulator)"""
    GEN = [0x3b6a57b2, 0x26508e6d, 0x1ea119fa, 0x3d4233dd, 0x2a1462b3]
    c = z3.BitVecVal(1, 32)
    for v in vals:
        c0 = z3.LShR(c, 25)
        c = ((c & 0x1ffffff) << 5) ^ z3.ZeroExt(24, R.B(v))
        for i in range(5): c = c ^ z3.If(z3.Extract(i, i, c0) == 1, z3.BitVecVal(GEN[i], 32), z3.BitVecVal(0, 32))
    return z3.simplify(c)
def bech32_ref(vals, m, hrp=b'bc'):
    hrp = list(hrp)
    exp = [(c >> 5) if not is_sym(c) else z3.LShR(c, 5) for c in hrp] + [0] + [c & 31 for c in hrp]
    pm = polymod(exp + list(vals) + [0] * 6) ^ (0x2bc830a3 if m else 1)
    chk = [z3.simplify(z3.Extract(4, 0, z3.LShR(pm, 5 * (5 - i)))) for i in range(6)]
    table = lambda v: charset_char(v)
    return list(hrp) + [ord('1')] + [table(v) for v in list(vals) + chk]
def charset_char(v):
    v = R.B(v) if (not is_sym(v) or v.size() == 8) else z3.ZeroExt(3, v)
    r = z3.BitVecVal(ord(CHARSET[0]), 8)
    for i in range(1, 32): r = z3.If(v == i, z3.BitVecVal(ord(CHARSET[i]), 8), r)
    return z3.simplify(r)

def parse_dump(E, f, raw):
    rp = sesslib.Rep(lambda off, n: (hlib.le(raw[off:off + n]) if n > 1 else raw[off]), (lambda t: hlib.uniq(E, f, t)) if f is not None else None)
    return dict(handled=rp.u32(), type=rp.u32(), int64=rp.u64(), data=rp.bytes(), str=rp.bytes())

def prep(ob, V=None):
    sym = V is None
    def var(n, bits=8): return z3.BitVec(n, bits) if sym else V.get(n, 0)
    k = ob['kind']
    def crash(f): return ('crash', f.result[1] if f.result else 'none', f.result[2] if f.result and len(f.result) > 2 else '')
    def io_dump(fields):
        def io(E, f, ret, outs):
            if ret is None: return crash(f)
            n = hlib.uniq(E, f, ret) if f is not None else ret
            d = parse_dump(E, f, outs[0](n))
            return {k_: d[k_] for k_ in fields}
        return io
    def io_stdout(E, f, ret, outs):
        if ret is None: return crash(f)
        return dict(rc=ret, out=list(f.aux.get('out1', [])) if f is not None else outs)
    hashf = dict(sha256=hashref.sha256, ripemd160=hashref.ripemd160, hash256=hashref.hash256, hash160=hashref.hash160)
    T_DATA, T_INT, T_STRING = 2, 1, 0
    if k == 'hash':
        data = [var('b%d' % i) for i in range(ob['L'])]
        return 'w_tf_data', [('in', list(ob['fun'].encode()) + [0]), ('in', data), ('u32', ob['L']), ('out', 200)], io_dump(['handled', 'type', 'data']), lambda ctx: dict(handled=1, type=T_DATA, data=hashf[ob['fun']](data)), [], dict(data=data)
    if k == 'cmdhash':
        data = [var('b%d' % i) for i in range(ob['L'])]
        line = list(ob['fun'].encode()) + [32] + list(b'0x') + C07.to_hex(data) + [0]
        return 'w_fn_tf', [('in', line)], io_stdout, lambda ctx: dict(rc=0, out=C07.to_hex(hashf[ob['fun']](data)) + [10]), [], dict(data=data)
    if k == 'cmdlen':
        data = [var('b%d' % i) for i in range(ob['L'])]
        line = list(b'len 0x') + C07.to_hex(data) + [0]
        return 'w_fn_tf', [('in', line)], io_stdout, lambda ctx: dict(rc=0, out=list(str(ob['L']).encode()) + [10]), [], dict(data=data)
    if k == 'reverse':
        data = [var('b%d' % i) for i in range(ob['L'])]
        return 'w_tf_data', [('in', list(b'reverse') + [0]), ('in', data), ('u32', ob['L']), ('out', 200)], io_dump(['handled', 'type', 'data']), lambda ctx: dict(handled=1, type=T_DATA, data=list(reversed(data))), [], dict(data=data)
    if k == 'prefix':
        data = [var('b%d' % i) for i in range(ob['L'])]
        return 'w_tf_data', [('in', list(b'prefix_compact_size') + [0]), ('in', data), ('u32', ob['L']), ('out', 600)], io_dump(['handled', 'type', 'data']), lambda ctx: dict(handled=1, type=T_DATA, data=hashref.compact_size(ob['L']) + data), [], dict(data=data)
    if k == 'prefixbig':
        data = [var('b0')] + [0xab] * (ob['L'] - 2) + [var('b1')]
        return 'w_tf_data', [('in', list(b'prefix_compact_size') + [0]), ('in', data), ('u32', ob['L']), ('out', ob['L'] + 64)], io_dump(['handled', 'type', 'data']), lambda ctx: dict(handled=1, type=T_DATA, data=hashref.compact_size(ob['L']) + data), [], dict(data=[data[0], data[-1]])
    if k == 'hex':
        data = [var('b%d' % i) for i in range(ob['L'])]
        return 'w_tf_data', [('in', list(b'hex') + [0]), ('in', data), ('u32', ob['L']), ('out', 200)], io_dump(['handled', 'type', 'str']), lambda ctx: dict(handled=1, type=T_STRING, str=C07.to_hex(data)), [], dict(data=data)
    if k == 'int':
        data = [var('b%d' % i) for i in range(ob['L'])]
        return 'w_tf_data', [('in', list(b'int') + [0]), ('in', data), ('u32', ob['L']), ('out', 200)], io_dump(['handled', 'type', 'int64']), lambda ctx: dict(handled=1, type=T_INT, int64=R.num_decode(ctx, [R.B(x) for x in data], z3.BoolVal(False), 4)), [], dict(data=data)
    if k == 'arith':
        nsym = 32 if ob['grp'] != 1 else 6          # with a symbolic group the limb-wise comparisons of arith_uint256 fork per limb: only the low 6 bytes are symbolic there
        a = [var('a%d' % i) if i < nsym else 0 for i in range(32)]; b = [var('b%d' % i) if i < nsym else 0 for i in range(32)]; g = [var('g%d' % i) if i < nsym else 0 for i in range(32)]
        if ob['grp'] == 2:
            g = list(BIGGROUPS[ob['gname']].to_bytes(32, 'little'))
            lo = ob.get('lowfixed', 0)        # little-endian: the low `lo` bytes are fixed constants, the bytes above (where the carry out of bit 255 is decided) symbolic
            a = [(0x5a + 3 * i) & 0xff if i < lo else a[i] for i in range(32)]; b = [(0xc3 + 5 * i) & 0xff if i < lo else b[i] for i in range(32)]
        data = [32] + a + [32] + b + ([32] + g if ob['grp'] else [])
        A = z3.ZeroExt(1, R.B(hlib.le(a), 256)); Bv = z3.ZeroExt(1, R.B(hlib.le(b), 256)); G = z3.ZeroExt(1, R.B(hlib.le(g), 256))
        assume = [z3.ULT(A, G), z3.ULT(Bv, G)] if (ob['grp'] and sym) else []           # residues of the group
        def ref(ctx):
            if ob['grp']:
                if ob['fun'] == 'add': sm = A + Bv; r = z3.If(z3.UGE(sm, G), sm - G, sm)
                else: r = z3.If(z3.UGE(A, Bv), A - Bv, A + G - Bv)
            else:
                r = (A + Bv) if ob['fun'] == 'add' else (A - Bv)
            r = z3.simplify(z3.Extract(255, 0, r))
            return dict(handled=1, type=T_DATA, data=[z3.simplify(z3.Extract(8 * i + 7, 8 * i, r)) for i in range(32)])
        return 'w_tf_data', [('in', list(ob['fun'].encode()) + [0]), ('in', data), ('u32', len(data)), ('out', 300)], io_dump(['handled', 'type', 'data']), ref, assume, dict(a=a, b=b, g=g)
    if k == 'tagged':
        tag = [var('t%d' % i) for i in range(ob['tagl'])]; msg = [var('m%d' % i) for i in range(ob['L'])]
        data = [ob['tagl']] + tag + [ob['L']] + msg
        def ref(ctx):
            th = hashref.sha256(tag)
            return dict(handled=1, type=T_DATA, data=hashref.sha256(th + th + msg))
        return 'w_tf_data', [('in', list(b'tagged_hash') + [0]), ('in', data), ('u32', len(data)), ('out', 200)], io_dump(['handled', 'type', 'data']), ref, [], dict(tag=tag, msg=msg)
    if k == 'expr':
        data = [var('b%d' % i) for i in range(ob['L'])]
        expr = list(ob['fun'].encode()) + list(b'(0x') + C07.to_hex(data) + list(b')') + [0]
        return 'w_tf_expr', [('in', expr), ('out', 200)], io_dump(['type', 'data']), lambda ctx: dict(type=T_DATA, data=hashf[ob['fun']](data)), [], dict(data=data)
    if k == 'b58':
        data = [var('b%d' % i) for i in range(ob['L'])]
        def io(E, f, ret, outs):
            if ret is None: return crash(f)
            n = hlib.uniq(E, f, ret) if f is not None else ret
            raw = outs[0](n); rp = sesslib.Rep(lambda off, n_: (hlib.le(raw[off:off + n_]) if n_ > 1 else raw[off]), (lambda t: hlib.uniq(E, f, t)) if f is not None else None)
            return dict(ok=rp.u32(), back=rp.bytes())
        return 'w_b58_roundtrip', [('in', data), ('u32', ob['L']), ('u32', ob['chk']), ('out', 300)], io, lambda ctx: dict(ok=1, back=list(data)), [], dict(data=data)
    if k == 'b58long':
        data = [0xff] * (ob['L'] - 1) + [var('b0') if ob['symlast'] else 0xff]
        def io(E, f, ret, outs):
            if ret is None: return crash(f)
            n = hlib.uniq(E, f, ret) if f is not None else ret
            raw = outs[0](n); rp = sesslib.Rep(lambda off, n_: (hlib.le(raw[off:off + n_]) if n_ > 1 else raw[off]), (lambda t: hlib.uniq(E, f, t)) if f is not None else None)
            return dict(ok=rp.u32(), back=rp.bytes())
        return 'w_b58_roundtrip', [('in', data), ('u32', ob['L']), ('u32', 0), ('out', 600)], io, lambda ctx: dict(ok=1, back=list(data)), [], dict(data=[x for x in data if is_sym(x)])
    if k == 'b58dec':
        cs = [var('c%d' % i) for i in range(ob['n'])]
        assume = [c != 0 for c in cs] if sym else []
        ALPHA = '123456789ABCDEFGHJKLMNPQRSTUVWXYZabcdefghijkmnopqrstuvwxyz'
        def io(E, f, ret, outs):
            if ret is None: return crash(f)
            n = hlib.uniq(E, f, ret) if f is not None else ret
            raw = outs[0](n); rp = sesslib.Rep(lambda off, n_: (hlib.le(raw[off:off + n_]) if n_ > 1 else raw[off]), (lambda t: hlib.uniq(E, f, t)) if f is not None else None)
            ok = rp.u32(); back = rp.bytes()
            return dict(ok=ok, back=back if (is_sym(ok) or ok) else '*')
        def ref(ctx):
            C = [R.B(c) for c in cs]; n = len(C); i = 0
            sp = lambda c: z3.Or(c == 32, z3.And(z3.UGE(c, 9), z3.ULE(c, 13)))
            while i < n and ctx.branch(sp(C[i])): i += 1
            zeroes = 0
            while i < n and ctx.branch(C[i] == ord('1')): zeroes += 1; i += 1
            val = z3.BitVecVal(0, 32); nd = 0
            while i < n and not ctx.branch(sp(C[i])):
                d = z3.BitVecVal(255, 32)
                for k_, ch in enumerate(ALPHA): d = z3.If(C[i] == ord(ch), z3.BitVecVal(k_, 32), d)
                if ctx.branch(d == 255): return dict(ok=0, back='*')
                val = z3.simplify(val * 58 + d); nd += 1; i += 1
            while i < n and ctx.branch(sp(C[i])): i += 1
            if i != n: return dict(ok=0, back='*')
            out = [0] * zeroes
            if nd:
                # big-endian bytes of val without leading zero bytes (val < 58^3 < 2^24)
                if ctx.branch(z3.UGE(val, 1 << 16)): nb = 3
                elif ctx.branch(z3.UGE(val, 1 << 8)): nb = 2
                elif ctx.branch(val != 0): nb = 1
                else: nb = 0
                out += [z3.simplify(z3.Extract(8 * (nb - 1 - j) + 7, 8 * (nb - 1 - j), val)) for j in range(nb)]
            return dict(ok=1, back=out)
        return 'w_b58_decode', [('in', cs + [0]), ('u32', 0), ('out', 300)], io, ref, assume, dict(chars=cs)
    if k == 'bech':
        vals = [var('v%d' % i) for i in range(ob['n'])]
        assume = [z3.ULT(v, 32) for v in vals] if sym else []
        def io(E, f, ret, outs):
            if ret is None: return crash(f)
            n = hlib.uniq(E, f, ret) if f is not None else ret
            raw = outs[0](n); rp = sesslib.Rep(lambda off, n_: (hlib.le(raw[off:off + n_]) if n_ > 1 else raw[off]), (lambda t: hlib.uniq(E, f, t)) if f is not None else None)
            return dict(s=rp.bytes(), enc=rp.u32(), hrp=rp.bytes(), data=rp.bytes())
        return 'w_bech32_roundtrip', [('u32', ob['m']), ('in', vals), ('u32', ob['n']), ('out', 300)], io, lambda ctx: dict(s=bech32_ref(vals, ob['m']), enc=2 if ob['m'] else 1, hrp=list(b'bc'), data=list(vals)), assume, dict(vals=vals)
    if k == 'bechhrp':
        vals = [var('v%d' % i) for i in range(ob['n'])]; hrp = [var('h%d' % i) for i in range(ob['hl'])]
        assume = ([z3.ULT(v, 32) for v in vals] + [z3.Or(c == ord('1'), c == ord('a'), c == ord('~')) for c in hrp]) if sym else []          # each character: the separator itself, a letter, the largest printable (all printable characters: 223 paths, 240 s for ONE character)
        def io(E, f, ret, outs):
            if ret is None: return crash(f)
            n = hlib.uniq(E, f, ret) if f is not None else ret
            raw = outs[0](n); rp = sesslib.Rep(lambda off, n_: (hlib.le(raw[off:off + n_]) if n_ > 1 else raw[off]), (lambda t: hlib.uniq(E, f, t)) if f is not None else None)
            return dict(s=rp.bytes(), enc=rp.u32(), hrp=rp.bytes(), data=rp.bytes())
        return 'w_bech32_roundtrip_hrp', [('u32', ob['m']), ('in', hrp + [0]), ('in', vals), ('u32', ob['n']), ('out', 300)], io, lambda ctx: dict(s=bech32_ref(vals, ob['m'], hrp), enc=2 if ob['m'] else 1, hrp=list(hrp), data=list(vals)), assume, dict(vals=vals, hrp=hrp)
    if k == 'bechcorrupt':
        vals = [var('v%d' % i) for i in range(ob['n'])]; repl = var('repl')
        good = bech32_ref(vals, ob['m'])
        s = list(good); orig = s[ob['pos']]
        # the replacement is any other printable character: another character of the bech32 alphabet in either case (a case flip makes the string mixed-case),
        # or a character outside the alphabet; '1' is excluded (it would move the separator, which the checksum guarantee does not cover)
        assume = ([z3.ULT(v, 32) for v in vals] + [z3.UGE(repl, 33), z3.ULE(repl, 126), repl != ord('1'), repl != orig]) if sym else []
        s[ob['pos']] = repl
        def io(E, f, ret, outs):
            if ret is None: return crash(f)
            n = hlib.uniq(E, f, ret) if f is not None else ret
            raw = outs[0](n)
            return dict(enc=hlib.le(raw[0:4]))
        return 'w_bech32_decode', [('in', s + [0]), ('out', 300)], io, lambda ctx: dict(enc=0), assume, dict(vals=vals, repl=repl)
    raise Exception(k)

def vec_set(E, st, vec, bs):
    """std::vector<unsigned char> at `vec` := bs (fresh storage from operator new)"""
    a = E.alloc(st, max(len(bs), 1), 'heap')
    for i, b in enumerate(bs): E.store(st, a + i, 1, b)
    E.store(st, vec, 8, a); E.store(st, vec + 8, 8, a + len(bs)); E.store(st, vec + 16, 8, a + len(bs))

def run_b58chk(E, ob, V=None):
    sym = V is None
    def var(n): return z3.BitVec(n, 8) if sym else V.get(n, 0)
    L = ob['L']; payload = [var('b%d' % i) for i in range(L)]
    saved = {k: E.stubs.get(k) for k in ('_ZL12DecodeBase58PKcRSt6vectorIhSaIhEEi', '_Z12EncodeBase58B5cxx114SpanIKhE')}
    try:
        if ob['kind'] == 'b58chk_dec':
            chk = [var('k%d' % i) for i in range(4)]
            def dec_stub(E_, st, fr, I, A): vec_set(E_, st, A[1], payload + chk); return 1          # what the digit conversion would deliver: payload || checksum
            E.stubs['_ZL12DecodeBase58PKcRSt6vectorIhSaIhEEi'] = dec_stub
            runs = hlib.spec_engine(E, 'w_b58_decode', [('in', list(b'x') + [0]), ('u32', 1), ('out', 300)])
            m = {id(r[0]): r for r in runs}
            def io(f):
                _, ret, outs = m[id(f)]
                if ret is None: return ('crash', f.result[1] if f.result else 'none', '')
                n = hlib.uniq(E, f, ret); raw = outs[0](n)
                rp = sesslib.Rep(lambda off, n_: (hlib.le(raw[off:off + n_]) if n_ > 1 else raw[off]), lambda t: hlib.uniq(E, f, t))
                return dict(ok=rp.u32(), back=rp.bytes())
            def ref(ctx):
                want = hashref.hash256(payload)[:4]
                if ctx.branch(R.items_equal(chk, want)): return dict(ok=1, back=list(payload))
                return dict(ok=0, back=[])
            return sesslib.diff_paths(E, ob['name'], [r[0] for r in runs], io, ref, [], dict(data=payload, chk=chk), lambda a, b: 'C14:base58check:decode-checksum')
        elif ob['kind'] == 'addr2spk':
            chk = [var('k%d' % i) for i in range(4)]
            def dec_stub(E_, st, fr, I, A): vec_set(E_, st, A[1], payload + chk); return 1
            E.stubs['_ZL12DecodeBase58PKcRSt6vectorIhSaIhEEi'] = dec_stub
            runs = hlib.spec_engine(E, 'w_tf_expr', [('in', list(b'addr_to_spk(x)') + [0]), ('out', 400)])
            m = {id(r[0]): r for r in runs}
            def io(f):
                _, ret, outs = m[id(f)]
                if ret is None: return ('crash', f.result[1] if f.result else 'none', '')
                d = parse_dump(E, f, outs[0](hlib.uniq(E, f, ret)))
                return dict(data=d['data'])
            def ref(ctx):
                if not ctx.branch(R.items_equal(chk, hashref.hash256(payload)[:4])): return dict(data='*')          # decode failed: a diagnostic, the value is not prescribed
                if L < 1: return dict(data='*')
                body = payload[1:]                                                                                 # the version byte is dropped
                return dict(data=[0x76, 0xa9] + [len(body)] + list(body) + [0x88, 0xac])
            return sesslib.diff_paths(E, ob['name'], [r[0] for r in runs], io, ref, [], dict(data=payload, chk=chk), lambda a, b: 'C14:address:addr-to-scriptpubkey')
        elif ob['kind'] == 'spk2addr':
            def enc_stub(E_, st, fr, I, A):
                sret, p, n = A
                st.aux['b58in'] = [E_.load(st, p + i, 1) for i in range(n)]
                E_.mk_empty_string(E_, st, sret); return None
            E.stubs['_Z12EncodeBase58B5cxx114SpanIKhE'] = enc_stub
            runs = hlib.spec_engine(E, 'w_tf_data', [('in', list(b'spk_to_addr') + [0]), ('in', payload), ('u32', L), ('out', 300)])
            def io(f):
                if f.result is None or f.result[0] != 'ret': return ('crash', f.result[1] if f.result else 'none', '')
                return dict(encoded_input=f.aux.get('b58in', 'no-address'))
            def ref(ctx):
                ok = L == 25 and ctx.branch(z3.And(R.B(payload[0]) == 0x76, R.B(payload[1]) == 0xa9, R.B(payload[2]) == 0x14, R.B(payload[23]) == 0x88, R.B(payload[24]) == 0xac))
                if not ok: return dict(encoded_input='no-address')
                body = [0x00] + list(payload[3:23])
                return dict(encoded_input=body + hashref.hash256(body)[:4])
            return sesslib.diff_paths(E, ob['name'], [r[0] for r in runs], io, ref, [], dict(data=payload), lambda a, b: 'C14:address:scriptpubkey-to-addr')
        else:
            def enc_stub(E_, st, fr, I, A):
                sret, p, n = A
                if is_sym(n): raise Exception('symbolic length')
                st.aux['b58in'] = [E_.load(st, p + i, 1) for i in range(n)]
                E_.mk_empty_string(E_, st, sret); return None
            E.stubs['_Z12EncodeBase58B5cxx114SpanIKhE'] = enc_stub
            runs = hlib.spec_engine(E, 'w_tf_data', [('in', list(b'base58chkenc') + [0]), ('in', payload), ('u32', L), ('out', 300)])
            def io(f):
                if f.result is None or f.result[0] != 'ret': return ('crash', f.result[1] if f.result else 'none', '')
                return dict(encoded_input=f.aux.get('b58in', 'never-called'))
            return sesslib.diff_paths(E, ob['name'], [r[0] for r in runs], io, lambda ctx: dict(encoded_input=list(payload) + hashref.hash256(payload)[:4]), [], dict(data=payload), lambda a, b: 'C14:base58check:encode-checksum')
    finally:
        for k, v in saved.items():
            if v is None: E.stubs.pop(k, None)
            else: E.stubs[k] = v

def run(E, ob):
    if ob['kind'] in ('b58chk_dec', 'b58chk_enc', 'spk2addr', 'addr2spk'): return run_b58chk(E, ob)
    fn, spec, io, ref, assume, inputs = prep(ob)
    return hlib.flat_check(E, ob['name'], fn, spec, io, ref, assume, inputs, lambda a, b: 'C14:%s:%s' % (ob['kind'], ob.get('fun', '')) + (':group' if ob.get('grp') else ''))

def values(ob, cex):
    V = {}
    for nm, pfx in (('data', 'b'), ('a', 'a'), ('b', 'b'), ('g', 'g'), ('tag', 't'), ('msg', 'm'), ('vals', 'v'), ('chars', 'c'), ('hrp', 'h')):
        for i, x in enumerate(cex.get(nm, [])): V['%s%d' % (pfx, i)] = x
    if 'repl' in cex: V['repl'] = cex['repl']
    return V

def native_stdout(lib, fn, spec):
    libc = ctypes.CDLL(None)
    with tempfile.TemporaryFile() as tf:
        libc.fflush(None); saved = os.dup(1); os.dup2(tf.fileno(), 1)
        try:
            ret, _ = hlib.spec_native(lib, fn, spec, restype=ctypes.c_int); libc.fflush(None)
        finally:
            os.dup2(saved, 1); os.close(saved)
        tf.seek(0); return ret, list(tf.read())

def native_and_ref(lib, ob, V):
    fn, spec, io, ref, assume, inputs = prep(ob, V)
    if fn == 'w_fn_tf':
        ret, out = native_stdout(lib, fn, spec); nat = dict(rc=ret, out=out)
    else:
        ret, outs = hlib.spec_native(lib, fn, spec); nat = io(None, None, ret, outs)
    cases, _ = refexec.explore(ref); s = z3.Solver(); s.check()
    return nat, sesslib.concretize(s.model(), cases[0][1])

def replay(lib, ob, cex):
    nat, ro = native_and_ref(lib, ob, values(ob, cex))
    return refexec.differs(nat, ro) is not False, 'native: %s | reference: %s' % (sesslib.short(nat), sesslib.short(ro))

def validate(E, lib):
    import random
    rnd = random.Random(9); n = 0
    for ob in obligations('quick', 0)[::4]:
        class RV(dict):
            def get(s, k, d=0): return rnd.randrange(32) if k.startswith('v') else (ord('q') if k == 'repl' else ((ord('1') if rnd.randrange(3) == 0 else 97 + rnd.randrange(26)) if k.startswith('h') else rnd.randrange(256)))
        V = RV()
        if ob['kind'] in ('b58chk_dec', 'b58chk_enc', 'spk2addr', 'addr2spk'): continue          # these run with a stubbed digit conversion: nothing to compare natively
        fn, spec, io, ref, assume, inputs = prep(ob, V)
        if ob['kind'] == 'arith' and ob['grp']: continue
        if fn == 'w_fn_tf':
            ret, out = native_stdout(lib, fn, spec); nat = dict(rc=ret, out=out)
        else:
            ret, outs = hlib.spec_native(lib, fn, spec); nat = io(None, None, ret, outs)
        runs = hlib.spec_engine(E, fn, spec)
        if len(runs) != 1 or runs[0][1] is None: raise EncoderMismatch('engine concrete run failed on %s: %r' % (ob['name'], [r[0].result for r in runs]))
        eng = io(E, runs[0][0], runs[0][1], runs[0][2])
        if refexec.differs(eng, nat) is not False: raise EncoderMismatch('engine %s != native %s on %s' % (sesslib.short(eng), sesslib.short(nat), ob['name']))
        n += 1
    return n
