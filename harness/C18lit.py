"""C18 (part 2) - the debugger's decimal literals agree with the script-number codec: integer tokens through the real btcc pipeline
(decimal boundary literals, 1-4 symbolic digits with either sign) against the arithmetic definition (reuses the C07 token machinery)."""
import C07

ID = 'C18'
TUS = C07.TUS; SHIMS = C07.SHIMS; NATIVE_TUS = getattr(C07, 'NATIVE_TUS', None)
def setup(E): C07.setup(E)
def obligations(tier, seed):
    obs = []
    for o in C07.obligations(tier, seed):
        if o['kind'] == 'emit_int' or (o['kind'] == 'tokens' and len(o['toks']) == 1 and o['toks'][0][0] in ('dec', 'lit') and o['toks'][0][1:2] != ('',)):
            if o['kind'] == 'tokens' and o['toks'][0][0] == 'lit' and not o['toks'][0][1].lstrip('-').isdigit(): continue
            o = dict(o); o['name'] = 'literal/' + o['name']; obs.append(o)
    return obs
def run(E, ob):
    r = C07.run(E, dict(ob, name=ob['name'][len('literal/'):]))
    r['name'] = ob['name']
    if r.get('key'): r['key'] = r['key'].replace('C07:', 'C18:literal:')
    return r
def replay(lib, ob, cex): return C07.replay(lib, dict(ob, name=ob['name'][len('literal/'):]), cex)
def validate(E, lib): return 0
