"""C11 - mock signatures (--pretend-valid) affect exactly the listed signature/key pairs."""
import z3
import stubs, sesslib, hlib, refscript as R, refexec
import C01 as base, C02
from irsym import is_sym
from core import mkres, EncoderMismatch
import build as _b

ID = 'C11'
TITLE = 'signature opcodes with pretend-valid pairs in the session (listed pair accepted in every signature opcode and script version; other signatures for a mocked key decided by the real check; unlisted keys unaffected) and Instance::parse_pretend_valid_expr'
TUS = base.TUS; SHIMS = ['sess', 'mock']; NATIVE_TUS = base.NATIVE_TUS
FUNCTIONS = ['EvalChecksig mock short-circuit', 'OP_CHECKMULTISIG mock branch', 'Instance::parse_pretend_valid_expr', 'Value(const char*) / data_value for the pair strings']
ASSUMPTIONS = C02.ASSUMPTIONS + ['in OP_CHECKMULTISIG a mocked key offered an UNLISTED signature: whether the real check still runs is not prescribed, those inputs are skipped; a mocked key offered a signature listed for another key must simply not match (listed signatures are exempt from the encoding rules, doc/mock-values.md)']
OUTSIDE = ['more than 2 pairs', 'pair strings using inline function expressions']
BOUNDS = 'pairs: 1-2, signature 1/9/64 bytes, key 1/32/33 bytes, all bytes symbolic; opcodes CHECKSIG, CHECKSIGVERIFY, CHECKSIGADD, CHECKMULTISIG(VERIFY) 1-of-1, 1-of-2 (one or both keys listed) and 2-of-3; 4 script versions; pair-list strings with symbolic hex digits and malformed lists'

def setup(E): C02.setup(E)

def obligations(tier, seed):
    obs = []
    def add(**kw):
        kw.setdefault('vf', (0, None)); kw.setdefault('tail', 0); kw.setdefault('mode', 0); kw.setdefault('cvals', {}); kw['kind'] = 'sigop'
        kw['name'] = 'mock/op%02x/sv%d/st%s/pairs%s/%s' % (kw['op'], kw['sv'], '.'.join(map(str, kw['lens'])), '+'.join('%dx%d' % p for p in kw['pairs']), kw['rel'])
        obs.append(kw)
    for sv in (R.BASE, R.WITNESS_V0, R.TAPROOT, R.TAPSCRIPT):
        for (sl, kl) in ((1, 33), (9, 33), (1, 1), (0, 33)) + (((64, 32), (0, 32), (65, 32)) if sv in (R.TAPROOT, R.TAPSCRIPT) else ()):
            for o in (0xac, 0xad):
                for rel in ('same', 'free'):
                    add(op=o, sv=sv, lens=(sl, kl), pairs=[(sl, kl)], rel=rel)
                add(op=o, sv=sv, lens=(sl, kl), pairs=[(sl + 1, kl)], rel='free')        # same key length, different sig length: never accepted by the option
                if (sl, kl) == (1, 1): add(op=o, sv=sv, lens=(sl, kl), pairs=[(sl, kl), (sl, kl)], rel='free')
            for rel in ('same', 'free'):
                add(op=0xba, sv=sv, lens=(sl, 1, kl), pairs=[(sl, kl)], rel=rel)
        if sv in (R.BASE, R.WITNESS_V0):
            for o in (0xae, 0xaf):
                for rel in ('same', 'free'):
                    add(op=o, sv=sv, lens=(0, 9, 1, 33, 1), cvals={'2': [1], '4': [1]}, pairs=[(9, 33)], rel=rel)
                    add(op=o, sv=sv, lens=(0, 1, 1, 33, 33, 1), cvals={'2': [1], '5': [2]}, pairs=[(1, 33)], rel=rel)
                # two listed pairs whose keys are both in a 1-of-2 multisig; the signature offered is the partner of the key tried second (seed C11-1)
                for sl in (1, 9):
                    add(op=o, sv=sv, lens=(0, sl, 1, 33, 33, 1), cvals={'2': [1], '5': [2]}, pairs=[(sl, 33), (sl, 33)], rel='same2')
                add(op=o, sv=sv, lens=(0, 1, 1, 1, 33, 33, 33, 1), cvals={'3': [2], '7': [3]}, pairs=[(1, 33), (1, 33)], rel='same2of3')
    for s in ['aa:bb', '0xaa:0xbb', 'aa:bb,cc:dd', 'aa', 'aa:bb:cc', 'aa,bb', 'aa:', 'aa:bb,cc:', '', 'aabbccddee:a1a2a3a4a5', '1:2']:
        obs.append(dict(kind='parse', name='parse/' + s, s=s))
    obs.append(dict(kind='parsesym', name='parse/sym-hex', pat='??:??????'))
    obs.append(dict(kind='parsesym', name='parse/sym-hex2', pat='????:??,??:????'))
    return obs

def build(ob, V=None):
    req, S, inputs, assume = C02.build(ob, V)
    def var(n, bits): return z3.BitVec(n, bits) if V is None else V.get(n, 0)
    pairs = []
    for pi, (sl, kl) in enumerate(ob['pairs']):
        ms = [var('ms%d_%d' % (pi, i), 8) for i in range(sl)]; mk = [var('mk%d_%d' % (pi, i), 8) for i in range(kl)]
        pairs.append((ms, mk))
    if ob['rel'] == 'same':
        # the offered signature/key are exactly the listed pair
        sig_i, key_i = {0xac: (0, 1), 0xad: (0, 1), 0xba: (0, 2), 0xae: (1, 3), 0xaf: (1, 3)}[ob['op']]
        stack = inputs['stack']
        stack[sig_i][:] = pairs[0][0]; stack[key_i][:] = pairs[0][1]
    if ob['rel'] == 'same2':          # [dummy, S0, 1, P0, P1, 2]: P1 (top-most) is tried first with S0, then P0
        stack = inputs['stack']; stack[1][:] = pairs[0][0]; stack[3][:] = pairs[0][1]; stack[4][:] = pairs[1][1]
    if ob['rel'] == 'same2of3':       # [dummy, S0, S1, 2, P0, P1, Q, 3]: unlisted-or-listed Q first (free), then P1 with S1 ... signatures in key order
        stack = inputs['stack']; stack[1][:] = pairs[0][0]; stack[2][:] = pairs[1][0]; stack[4][:] = pairs[0][1]; stack[5][:] = pairs[1][1]; stack[6][:] = pairs[1][1]
    # the session's map is keyed by signature: a later pair with an equal signature replaces the earlier one; keep the reference simple by assuming distinct signatures
    if len(pairs) == 2 and V is None and len(pairs[0][0]) == len(pairs[1][0]) and pairs[0][0]:
        assume = assume + [z3.Not(R.items_equal(pairs[0][0], pairs[1][0]))]
    # rebuild the request with the mock pairs
    flags = inputs['flags']
    pre = dict(alt=[], vf=ob['vf'], nop=inputs['nop'], pc=1, pbch=S.pbch, opcode_pos=inputs['opos'], codesep=inputs['csep'], weight=inputs['weight'], leaf=inputs['leaf'], curr_op_seq=3, hist=[], mock=pairs)
    req = sesslib.sess_request(ob['mode'], flags, ob['sv'], inputs['stack'], S.script, 0, 2, (0, 0, 0), pre)
    S.stack = inputs['stack']; S.mock = pairs
    inputs = dict(inputs, pairs=[[a, b] for a, b in pairs])
    return req, S, inputs, assume

def run(E, ob):
    if ob['kind'] != 'sigop': return run_parse(E, ob)
    req, S, inputs, assume = build(ob)
    out, fin = sesslib.engine_call(E, req, assume=assume)
    def io(f): return C02.impl_outcome(sesslib.engine_reply(E, f, out, ob['mode']), ob['mode'])
    def key(a, b): return 'C11:%s:sv%d:%s' % (R.NAME[ob['op']], ob['sv'], ob['rel'])
    return sesslib.diff_paths(E, ob['name'], fin, io, lambda ctx: R.ref_sigop(ctx, S), assume, inputs, key)

# ---- pair-list parsing
def ref_tok(s):
    """documented value grammar restricted to what pair lists use: hex (optionally 0x-prefixed) -> bytes; small decimal -> script number"""
    if s.startswith('0x'): return list(bytes.fromhex(s[2:]))
    if s.isdigit(): return [int(s)] if int(s) else []
    return list(bytes.fromhex(s))

def ref_parse(s):
    if s == '': return dict(ok=1, pairs=[])
    pairs = {}
    for ent in s.split(','):
        parts = ent.split(':')
        if len(parts) != 2 or parts[1] == '': return dict(ok=0)
        pairs[bytes(ref_tok(parts[0]))] = bytes(ref_tok(parts[1]))
    return dict(ok=1, pairs=sorted([list(k), list(v)] for k, v in pairs.items()))

def parse_io(rdr):
    ok = rdr.u32()
    n = rdr.cu32(); m = [[rdr.bytes(), rdr.bytes()] for _ in range(n)]
    k = rdr.cu32(); ks = [rdr.bytes() for _ in range(k)]
    return dict(ok=ok, pairs=m, keys=ks)

def run_parse(E, ob):
    if ob['kind'] == 'parse':
        chars = list(ob['s'].encode()); inputs = {}; assume = []
        want = ref_parse(ob['s'])
        def ref(ctx):
            if not want['ok']: return dict(ok=0, pairs='*', keys='*')
            return dict(ok=1, pairs=want['pairs'], keys=sorted(set(tuple(p[1]) for p in want['pairs'])) and [list(x) for x in sorted(set(tuple(p[1]) for p in want['pairs']))])
    else:
        chars = []; hv = []
        for i, c in enumerate(ob['pat']):
            if c == '?': v = z3.BitVec('h%d' % i, 8); hv.append(v); chars.append(v)
            else: chars.append(ord(c))
        assume = [z3.Or(z3.And(z3.UGE(c, 97), z3.ULE(c, 102))) for c in hv]            # letters a-f: cannot be read as decimal numbers or opcode names
        inputs = dict(chars=hv)
        def hx(a, b):
            f = lambda c: z3.If(z3.ULE(c, 57), c - 48, c - 87)
            return z3.simplify((f(a) << 4) | f(b))
        def ref(ctx):
            # structure is concrete: split on the literal separators
            ents = []; cur = []; parts = []
            for c in chars + [ord(',')]:
                if not is_sym(c) and c in (ord(':'), ord(',')):
                    parts.append([hx(cur[2 * i], cur[2 * i + 1]) for i in range(len(cur) // 2)]); cur = []
                    if c == ord(','): ents.append(parts); parts = []
                else: cur.append(c)
            pairs = [[e[0], e[1]] for e in ents]
            if len(pairs) == 2:
                if len(pairs[0][0]) == len(pairs[1][0]) and ctx.branch(R.items_equal(pairs[0][0], pairs[1][0])): raise refexec.RefAbort('equal signatures in two pairs')
                # map order: by signature bytes
                lt = z3.ULT(stubs.cat([R.B(x) for x in pairs[0][0]], 8), stubs.cat([R.B(x) for x in pairs[1][0]], 8)) if len(pairs[0][0]) == len(pairs[1][0]) else None
                if lt is None: raise refexec.RefAbort('different signature lengths: ordering of the dump')
                if not ctx.branch(lt): pairs = [pairs[1], pairs[0]]
            return dict(ok=1, pairs=pairs, keys='*')
    def io(E_, f, ret, outs):
        if ret is None: return ('crash', f.result[1] if f.result else 'none', f.result[2] if f.result and len(f.result) > 2 else '')
        n = hlib.uniq(E_, f, ret) if f is not None else ret
        raw = outs[0](n)
        class R_:
            def __init__(s): s.o = 0
        rd = sesslib.Rep(lambda off, k: (hlib.le(raw[off:off + k]) if k > 1 else raw[off]), (lambda t: hlib.uniq(E_, f, t)) if f is not None else None)
        o = parse_io(rd)
        if not is_sym(o['ok']) and not o['ok']: return dict(ok=0, pairs='*', keys='*')
        return o
    return hlib.flat_check(E, ob['name'], 'w_parse_pretend', [('in', chars + [0]), ('out', 400)], io, ref, assume, inputs, lambda a, b: 'C11:parse:' + ob.get('s', ob.get('pat', '')))

def replay(lib, ob, cex):
    if ob['kind'] != 'sigop':
        chars = list(ob['s'].encode()) if ob['kind'] == 'parse' else None
        if chars is None:
            k = 0; chars = []
            for c in ob['pat']:
                if c == '?': chars.append(cex['chars'][k]); k += 1
                else: chars.append(ord(c))
        ret, outs = hlib.spec_native(lib, 'w_parse_pretend', [('in', chars + [0]), ('out', 400)])
        raw = outs[0](ret)
        rd = sesslib.Rep(lambda off, k: int.from_bytes(bytes(raw[off:off + k]), 'little'))
        o = parse_io(rd)
        return None, 'native parse of %r: %s' % (bytes(chars), sesslib.short(o))
    V = C02.concrete(ob, cex)
    for pi, (ms, mk) in enumerate(cex.get('pairs', [])):
        for i, b in enumerate(ms): V['ms%d_%d' % (pi, i)] = b
        for i, b in enumerate(mk): V['mk%d_%d' % (pi, i)] = b
    req, S, inputs, _ = build(ob, V)
    rep = sesslib.native_call(lib, req, ob['mode'], oracle=cex.get('_oracle', []))
    return None, 'native: %s' % sesslib.short(C02.impl_outcome(rep, ob['mode']))

def validate(E, lib):
    n = 0
    for ob in [o for o in obligations('quick', 0) if o['kind'] == 'parse']:
        chars = list(ob['s'].encode())
        ret, outs = hlib.spec_native(lib, 'w_parse_pretend', [('in', chars + [0]), ('out', 400)])
        nat = outs[0](ret)
        runs = hlib.spec_engine(E, 'w_parse_pretend', [('in', chars + [0]), ('out', 400)])
        if len(runs) != 1 or runs[0][1] is None: raise EncoderMismatch('engine concrete run failed on parse %r: %r' % (ob['s'], [r[0].result for r in runs]))
        eng = runs[0][2][0](runs[0][1])
        if eng != nat: raise EncoderMismatch('engine %r != native %r on parse %r' % (eng, nat, ob['s']))
        n += 1
    return n
