"""C16 - exec applies operations exactly as the script would (Instance::eval on an arbitrary session pre-state)."""
import z3
import stubs, sesslib, refscript as R, refexec
import C01 as base
from irsym import is_sym
from core import mkres, EncoderMismatch

ID = 'C16'
TITLE = 'Instance::eval (token parser + StepScript on a local script) against the reference applied to the same operation list, from an arbitrary session pre-state; position, script and histories untouched'
TUS = base.TUS; SHIMS = base.SHIMS; NATIVE_TUS = base.NATIVE_TUS
FUNCTIONS = ['Instance::eval', 'GetOpCode', 'TryHex', 'CScript::operator<<(int64_t / vector / opcodetype)', 'StepScript(env, it, &local_script)']
ASSUMPTIONS = base.ASSUMPTIONS + ['a hex token denotes a push of exactly those bytes, a decimal token the push of that number; how eval encodes the push is not prescribed, so the minimal-push policy (MINIMALDATA) must not make a hex token fail',
                                  'OP_CODESEPARATOR via exec is decided under C15 (it leaves a pointer into the temporary script)']
OUTSIDE = ['more than 3 tokens per exec', 'decimal tokens beyond int32', 'hex tokens longer than 4 bytes']
BOUNDS = 'every opcode name in both spellings x 3 script versions x executed/unexecuted; decimal tokens from a boundary set plus 1-3 symbolic digits; hex tokens of 1,2,4 bytes with symbolic hex digits and concrete ones of 75,76,255,256,520,521 bytes; token sequences of length 2-3; invalid tokens; stack + alt stack totals 999/1000 before growing operations (the 1000-item limit)'

def setup(E): base.setup(E)

NAMES = {}       # token spelling -> opcode value (restated)
for n, v in R.OP.items():
    if n in ('OP_INVALIDOPCODE', 'OP_PUSHDATA1', 'OP_PUSHDATA2', 'OP_PUSHDATA4'): continue
    NAMES[n] = v; NAMES[n[3:]] = v
NAMES['OP_FALSE'] = 0; NAMES['FALSE'] = 0; NAMES['OP_TRUE'] = 0x51; NAMES['TRUE'] = 0x51

def obligations(tier, seed):
    obs = []
    def add(tokens, sv, lens, vf=(0, None), symhex=0, symdec=0, tag='', label=None, allow=0, pad=0):
        obs.append(dict(name='eval/%s/sv%d/st%s/vf%d-%s%s' % (label or ' '.join(tokens), sv, '.'.join(map(str, lens)), vf[0], vf[1], tag), tokens=tokens, sv=sv, lens=lens, vf=vf, symhex=symhex, symdec=symdec, allow=allow, pad=pad))
    import C17
    for sv in (R.BASE, R.WITNESS_V0):
        for n, k in C17.ARITY.items(): add([n], sv, tuple([1] * k), tag='/allow-disabled', allow=1)
    for sv in (R.BASE, R.WITNESS_V0, R.TAPSCRIPT):
        for n, v in sorted(NAMES.items()):
            if v in R.SIGOPS or n in ('OP_CODESEPARATOR', 'CODESEPARATOR'): continue
            if sv == R.TAPSCRIPT and R.is_op_success(v): continue
            if n.isdigit() or n.lstrip('-').isdigit(): continue        # bare digits are numbers, not opcode names
            if tier == 'quick' and sv != R.BASE and not n.startswith('OP_'): continue
            k = base.ARITY.get(v, 0)
            add([n], sv, tuple([1] * k))
            if tier != 'quick' or n.startswith('OP_'): add([n], sv, tuple([1] * k), vf=(1, 0))
        for t in ['1', '-1', '0', '2', '16', '17', '127', '128', '255', '256', '-128', '-129', '32767', '32768', '2147483647', '-2147483647', '99', '515293', '1234']:
            add([t], sv, (1,))
        for t in ['aa', '00', '01', '10', '11', '81', '80', '0102', 'ffff', '01020304', 'deadbeef00', '7f']:
            add([t], sv, (1,))
            add([t], sv, (1,), vf=(1, 0))
        for nbytes in (75, 76, 255, 256, 520, 521):          # every push form, and the element-size limit
            add(['ab' * nbytes], sv, (1,), label='hex-%d-bytes' % nbytes)
            add(['ab' * nbytes, 'OP_SIZE'], sv, (1,), vf=(1, 0), label='hex-%d-bytes OP_SIZE' % nbytes)
        for nb in (1, 2, 4): add(['?' * (2 * nb)], sv, (1,), symhex=1, tag='/symhex')
        for nd in (1, 2, 3): add(['?' * nd], sv, (1,), symdec=1, tag='/symdec')
        for seq in (['1', '2', 'OP_ADD'], ['OP_DUP', 'OP_DROP'], ['0', 'OP_IF', 'OP_ENDIF'], ['OP_1', 'OP_IF'], ['OP_ELSE', '5'], ['2', 'OP_FOO'], ['OP_FOO'], ['xyz'], ['', '3'], ['OP_ADD', 'OP_ADD'],
                    ['aabb', 'OP_SIZE'], ['OP_x51'], ['OP_xZZ'], ['0x51'], ['1', 'OP_VERIFY', 'OP_RETURN']):
            add(seq, sv, (1, 1))
            if seq[0] in ('OP_ELSE',): add(seq, sv, (1, 1), vf=(1, 0))
        # a conditional operation that changes the state, followed by one that fails
        for seq, vf in ((['1', 'OP_IF', 'OP_RETURN'], (0, None)), (['OP_ENDIF', 'OP_RETURN'], (1, None)), (['OP_ELSE', '9', 'OP_TOALTSTACK', 'OP_DROP', 'OP_VERIFY'], (1, 0)), (['OP_TOALTSTACK', 'OP_NOTIF', 'OP_ELSE', 'OP_FROMALTSTACK', 'OP_FROMALTSTACK', 'OP_FROMALTSTACK'], (0, None)),
                        (['OP_IF', 'OP_ENDIF', 'OP_ENDIF'], (0, None)), (['OP_ENDIF', 'OP_ENDIF'], (2, 1))):
            add(seq, sv, (1, 1), vf=vf)
    # the 1000-item limit (stack + alt stack, the alt stack holds one item) applies to an exec'd operation as to a script operation (seed C16-8)
    for sv in (R.BASE, R.WITNESS_V0, R.TAPSCRIPT):
        for seq, k in ((['OP_1'], 0), (['7'], 0), (['OP_DEPTH'], 0), (['OP_DUP'], 1), (['OP_2DUP'], 2), (['OP_SIZE'], 1), (['OP_1', 'OP_DROP'], 0), (['OP_DROP', 'OP_1', 'OP_1'], 1), (['OP_FROMALTSTACK', 'OP_DUP'], 0)):
            for pad in (998, 999):
                if tier == 'quick' and sv != R.BASE and seq[0] not in ('OP_1', 'OP_DUP'): continue
                add(seq, sv, tuple([1] * k), pad=pad - k, tag='/pad%d' % (pad - k))
        add(['OP_1'], sv, (), vf=(1, 0), pad=999, tag='/pad999')
    return obs

def build(ob, V=None):
    sym = V is None
    def var(n, bits): return z3.BitVec(n, bits) if sym else V.get(n, 0)
    stack = [[1 + (i & 1)] for i in range(ob.get('pad', 0))] + [[var('s%d_%d' % (i, j), 8) for j in range(L)] for i, L in enumerate(ob['lens'])]
    alt = [[var('a0', 8)]]
    script = [0x51, 0x61, 0x52]
    toks = []; assume = []; tchars = []
    for ti, t in enumerate(ob['tokens']):
        if '?' in t:
            cs = [var('t%d_%d' % (ti, i), 8) for i in range(len(t))]; tchars += cs
            if sym:
                for c in cs:
                    if ob['symhex']: assume.append(z3.Or(z3.And(z3.UGE(c, 48), z3.ULE(c, 57)), z3.And(z3.UGE(c, 97), z3.ULE(c, 102)), z3.And(z3.UGE(c, 65), z3.ULE(c, 70))))
                    else: assume.append(z3.And(z3.UGE(c, 48), z3.ULE(c, 57)))
                if ob['symdec']: assume.append(cs[0] != 48)           # canonical decimal: no leading zero
                if ob['symhex']: assume.append(z3.UGE(cs[0], 65))      # first character a letter: the token cannot be read as a decimal number
            toks.append(cs)
        else: toks.append(list(t.encode()))
    flags = var('flags', 32); nop = var('nop', 32)
    if sym: assume.append(z3.ULE(nop, 201))          # up to the limit: an exec'd operation is counted like a script operation (seed C16-4)
    pre = dict(alt=alt, vf=ob['vf'], nop=nop, pc=1, pbch=0, opcode_pos=1, codesep=0xffffffff, curr_op_seq=1, hist=[([[7]], [], 0, 5)])
    req = sesslib.sess_request(6, flags, ob['sv'], stack, script, ob.get('allow', 0), 0, (0, 0, 0), pre, tokens=toks)
    inputs = dict(flags=flags, nop=nop, stack=stack, alt=alt, tchars=tchars)
    return req, inputs, assume, toks, dict(stack=stack, alt=alt, nop=nop, flags=flags, script=script)

def hexval(c):
    c = R.B(c)
    return z3.If(z3.ULE(c, 57), c - 48, z3.If(z3.ULE(c, 70), c - 55, c - 87))

def compile_tokens(ctx, ob, toks):
    """the documented token grammar -> list of ('op', byte) / ('num', term) / ('push', bytes) ; None when a token is invalid"""
    ops = []
    for t, chars in zip(ob['tokens'], toks):
        if t == '': continue
        if '?' in t:
            if ob['symdec']:
                v = z3.BitVecVal(0, 64)
                for c in chars: v = v * 10 + z3.ZeroExt(56, R.B(c) - 48)
                ops.append(('num', z3.simplify(v)))
            else:
                ops.append(('push', [z3.simplify((hexval(chars[2 * i]) << 4) | hexval(chars[2 * i + 1])) for i in range(len(chars) // 2)]))
            continue
        body = t[1:] if t[0] == '-' else t
        if body.isdigit() and (body == '0' or body[0] != '0') and not (t[0] == '-' and body == '0') and abs(int(t)) < 2**31:
            ops.append(('num', z3.BitVecVal(int(t), 64))); continue
        if len(t) % 2 == 0 and all(c in '0123456789abcdefABCDEF' for c in t):
            ops.append(('push', list(bytes.fromhex(t)))); continue
        nm = t
        if nm.startswith('OP_x') or nm.startswith('x'):
            h = nm[4:] if nm.startswith('OP_x') else nm[1:]
            if len(h) == 2 and all(c in '0123456789abcdefABCDEF' for c in h): ops.append(('op', int(h, 16))); continue
        if nm in NAMES: ops.append(('op', NAMES[nm])); continue
        return None
    return ops

def ref_eval(ctx, ob, toks, P):
    ops = compile_tokens(ctx, ob, toks)
    if ops is None: return dict(ret=0, unchanged=1)           # invalid token: refused, nothing executed
    S = R.RS(stack=P['stack'], alt=P['alt'], vf_size=ob['vf'][0], vf_ff=ob['vf'][1], nop=P['nop'], flags=P['flags'], sigversion=ob['sv'], script=[], pc=0)
    for kind, v in ops:
        if kind == 'op':
            if v in R.SIGOPS or v == 0xab: raise refexec.RefAbort('opcode outside C16 reference')
            S.allow_disabled = bool(ob.get('allow', 0))          # the re-enabled opcodes through exec: gated exactly like script operations
            S.script = [v]; S.pc = 0
            r = R.ref_step(ctx, S)
        else:
            # a push of a value: behaves like an executed data push whatever its encoding (no minimal-push failure)
            S2 = S.copy()
            if S2.vf_ff is None:
                S2.stack.append(R.num_encode(ctx, v) if kind == 'num' else list(v))
            r = dict(ok=1, stack=S2.stack, alt=S2.alt, vf=(S2.vf_size, S2.vf_size if S2.vf_ff is None else S2.vf_ff), nop=S2.nop)
            if len(S2.stack) + len(S2.alt) > R.MAX_STACK: r = dict(ok=0, err=R.ERR('STACK_SIZE'))          # (was overwritten by the line above until the /pad obligations exercised it)
            if kind == 'push' and len(v) > R.MAX_ELEM: r = dict(ok=0, err=R.ERR('PUSH_SIZE'))          # element-size limit: applies to every push, executed or not, in every script version
        if not r['ok']: return dict(ret=0, err=r['err'], alt_before=S.alt, vf_before=(S.vf_size, S.vf_size if S.vf_ff is None else S.vf_ff))
        S.stack = r['stack']; S.alt = r['alt']; S.vf_size = r['vf'][0]; S.vf_ff = None if r['vf'][1] == r['vf'][0] else r['vf'][1]; S.nop = r['nop']
    return dict(ret=1, stack=S.stack, alt=S.alt, vf=(S.vf_size, S.vf_size if S.vf_ff is None else S.vf_ff), nop=z3.simplify(R.B(S.nop, 32)), pos=POS)

def ref_outcome(ctx, ob, toks, P, pre_state):
    r = ref_eval(ctx, ob, toks, P)
    if r.get('unchanged'): return dict(ret=0, err='*', state=pre_state, pos=POS)
    if not r['ret']:
        # one operation failed: the operations before it have been applied. What the failing operation itself leaves on the stack (OP_EQUALVERIFY has replaced
        # its operands by then) and in the counter is not prescribed; the conditional state and the alt stack are those reached before it - no failing
        # operation changes either (seed C16-6 rolled the conditional state back to the one before the exec). An exception is reported as text, its code is not meaningful.
        return dict(ret=0, err=('*' if r['err'] == R.EXC else r['err']), state=dict(stack='*', alt=r['alt_before'], vf=r['vf_before'], nop='*'), pos=POS)
    return r

POS = dict(pc=1, script=[0x51, 0x61, 0x52], pend=3, curr_op_seq=1, hist=1, done=0)

def impl_outcome(rep, inputs_pre):
    p = rep['post']
    pos = dict(pc=p['pc'], script=p['script'], pend=p['pend'], curr_op_seq=p['curr_op_seq'], hist=p['hist'], done=p['done'])
    if not is_sym(rep['threw']) and rep['threw']: return ('crash', 'exception-escapes-eval', 'a C++ exception leaves Instance::eval; its caller fn_exec has no handler, so the debugger terminates')
    if not rep['ret']:
        # either a refused token (nothing executed) or a failed operation
        return dict(ret=0, err=p['err'], state=dict(stack=p['stack'], alt=p['alt'], vf=p['vf'], nop=p['nop']), pos=pos)
    return dict(ret=1, stack=p['stack'], alt=p['alt'], vf=p['vf'], nop=p['nop'], pos=pos)

def run(E, ob):
    req, inputs, assume, toks, P = build(ob)
    out, fin = sesslib.engine_call(E, req, assume=assume)
    pre_state = dict(stack=P['stack'], alt=P['alt'], vf=(ob['vf'][0], ob['vf'][0] if ob['vf'][1] is None else ob['vf'][1]), nop=P['nop'])
    def io(f):
        o = impl_outcome(sesslib.engine_reply(E, f, out, 6), None)
        return o
    def ref(ctx):
        return ref_outcome(ctx, ob, toks, P, pre_state)
    def key(a, b):
        if isinstance(a, (list, tuple)): return 'C16:' + str(a[1])
        return 'C16:%s:%s' % ('+'.join(ob['tokens']) if not (ob['symhex'] or ob['symdec']) else ('symhex' if ob['symhex'] else 'symdec'), 'ret' if a.get('ret') != b.get('ret') else 'state')
    # wildcard-aware comparison: '*' in the reference matches anything
    return sesslib.diff_paths(E, ob['name'], fin, lambda f: wild(io(f)), lambda ctx: ref(ctx), assume, inputs, key)

def wild(o): return o

def replay(lib, ob, cex):
    V = dict(flags=cex['flags'], nop=cex['nop'])
    for i, it in enumerate(cex['stack']):
        for j, b in enumerate(it): V['s%d_%d' % (i, j)] = b
    V['a0'] = cex['alt'][0][0]
    k = 0
    for ti, t in enumerate(ob['tokens']):
        if '?' in t:
            for i in range(len(t)): V['t%d_%d' % (ti, i)] = cex['tchars'][k]; k += 1
    req, inputs, _, toks, P = build(ob, V)
    rep = sesslib.native_call(lib, req, 6)
    io = impl_outcome(rep, None)
    pre_state = dict(stack=P['stack'], alt=P['alt'], vf=(ob['vf'][0], ob['vf'][0] if ob['vf'][1] is None else ob['vf'][1]), nop=P['nop'])
    def ref(ctx):
        return ref_outcome(ctx, ob, toks, P, pre_state)
    cases, _ = refexec.explore(ref)
    s = z3.Solver(); s.check(); ro = sesslib.concretize(s.model(), cases[0][1])
    tokstr = ' '.join(bytes(t).decode('latin1') for t in toks)
    return refexec.differs(io, ro) is not False, 'exec %s  native: %s | reference: %s' % (tokstr, sesslib.short(io), sesslib.short(ro))

def validate(E, lib):
    n = 0
    for ob in [o for o in obligations('quick', 0) if o['sv'] == 0 and not o['symhex'] and not o['symdec']][::9][:40]:
        V = dict(flags=0x1fffdf, nop=3, a0=9, s0_0=1, s1_0=2)
        req, inputs, _, toks, P = build(ob, V)
        nat = impl_outcome(sesslib.native_call(lib, req, 6), None)
        out, fin = sesslib.engine_call(E, req)
        if len(fin) != 1 or fin[0].result[0] != 'ret': raise EncoderMismatch('engine concrete run: %r on %s' % ([f.result for f in fin], ob['name']))
        eng = impl_outcome(sesslib.engine_reply(E, fin[0], out, 6), None)
        if refexec.differs(eng, nat) is not False: raise EncoderMismatch('engine %s != native %s on %s' % (eng, nat, ob['name']))
        n += 1
    return n
