"""Reference model of one Bitcoin Script operation, written for this task from the consensus rules
(script number definition, BIP16/62/65/68/112/141/147/342 and the reference client's documented limits).
It never reads the repository's interpreter; opcode values, flag bits and limits are restated here.
Only script error *names* are resolved to the numbers of the working tree's script_error.h (renumbering the enum is not
a behaviour change; returning a different error is)."""
import re, os, z3
from irsym import is_sym, bv, simp
from refexec import RefAbort
import hashref

REPO = os.environ.get('VERIF_REPO', '/repo')

# ---- opcodes (consensus constants)
OP = dict(OP_0=0x00, OP_PUSHDATA1=0x4c, OP_PUSHDATA2=0x4d, OP_PUSHDATA4=0x4e, OP_1NEGATE=0x4f, OP_RESERVED=0x50, OP_1=0x51, OP_16=0x60,
          OP_NOP=0x61, OP_VER=0x62, OP_IF=0x63, OP_NOTIF=0x64, OP_VERIF=0x65, OP_VERNOTIF=0x66, OP_ELSE=0x67, OP_ENDIF=0x68, OP_VERIFY=0x69, OP_RETURN=0x6a,
          OP_TOALTSTACK=0x6b, OP_FROMALTSTACK=0x6c, OP_2DROP=0x6d, OP_2DUP=0x6e, OP_3DUP=0x6f, OP_2OVER=0x70, OP_2ROT=0x71, OP_2SWAP=0x72, OP_IFDUP=0x73,
          OP_DEPTH=0x74, OP_DROP=0x75, OP_DUP=0x76, OP_NIP=0x77, OP_OVER=0x78, OP_PICK=0x79, OP_ROLL=0x7a, OP_ROT=0x7b, OP_SWAP=0x7c, OP_TUCK=0x7d,
          OP_CAT=0x7e, OP_SUBSTR=0x7f, OP_LEFT=0x80, OP_RIGHT=0x81, OP_SIZE=0x82, OP_INVERT=0x83, OP_AND=0x84, OP_OR=0x85, OP_XOR=0x86, OP_EQUAL=0x87,
          OP_EQUALVERIFY=0x88, OP_RESERVED1=0x89, OP_RESERVED2=0x8a, OP_1ADD=0x8b, OP_1SUB=0x8c, OP_2MUL=0x8d, OP_2DIV=0x8e, OP_NEGATE=0x8f, OP_ABS=0x90,
          OP_NOT=0x91, OP_0NOTEQUAL=0x92, OP_ADD=0x93, OP_SUB=0x94, OP_MUL=0x95, OP_DIV=0x96, OP_MOD=0x97, OP_LSHIFT=0x98, OP_RSHIFT=0x99,
          OP_BOOLAND=0x9a, OP_BOOLOR=0x9b, OP_NUMEQUAL=0x9c, OP_NUMEQUALVERIFY=0x9d, OP_NUMNOTEQUAL=0x9e, OP_LESSTHAN=0x9f, OP_GREATERTHAN=0xa0,
          OP_LESSTHANOREQUAL=0xa1, OP_GREATERTHANOREQUAL=0xa2, OP_MIN=0xa3, OP_MAX=0xa4, OP_WITHIN=0xa5, OP_RIPEMD160=0xa6, OP_SHA1=0xa7, OP_SHA256=0xa8,
          OP_HASH160=0xa9, OP_HASH256=0xaa, OP_CODESEPARATOR=0xab, OP_CHECKSIG=0xac, OP_CHECKSIGVERIFY=0xad, OP_CHECKMULTISIG=0xae, OP_CHECKMULTISIGVERIFY=0xaf,
          OP_NOP1=0xb0, OP_CHECKLOCKTIMEVERIFY=0xb1, OP_CHECKSEQUENCEVERIFY=0xb2, OP_NOP4=0xb3, OP_NOP5=0xb4, OP_NOP6=0xb5, OP_NOP7=0xb6, OP_NOP8=0xb7,
          OP_NOP9=0xb8, OP_NOP10=0xb9, OP_CHECKSIGADD=0xba, OP_INVALIDOPCODE=0xff)
NAME = {v: k for k, v in OP.items()}
for i in range(2, 16): OP['OP_%d' % i] = 0x50 + i; NAME[0x50 + i] = 'OP_%d' % i
DISABLED = [OP[n] for n in ('OP_CAT', 'OP_SUBSTR', 'OP_LEFT', 'OP_RIGHT', 'OP_INVERT', 'OP_AND', 'OP_OR', 'OP_XOR', 'OP_2MUL', 'OP_2DIV', 'OP_MUL', 'OP_DIV', 'OP_MOD', 'OP_LSHIFT', 'OP_RSHIFT')]
SIGOPS = [0xac, 0xad, 0xae, 0xaf, 0xba]
def is_op_success(o):      # BIP342
    return o == 80 or o == 98 or 126 <= o <= 129 or 131 <= o <= 134 or 137 <= o <= 138 or 141 <= o <= 142 or 149 <= o <= 153 or 187 <= o <= 254

# ---- flags (consensus / policy constants)
F = dict(P2SH=1 << 0, STRICTENC=1 << 1, DERSIG=1 << 2, LOW_S=1 << 3, NULLDUMMY=1 << 4, SIGPUSHONLY=1 << 5, MINIMALDATA=1 << 6, DISCOURAGE_UPGRADABLE_NOPS=1 << 7,
         CLEANSTACK=1 << 8, CHECKLOCKTIMEVERIFY=1 << 9, CHECKSEQUENCEVERIFY=1 << 10, WITNESS=1 << 11, DISCOURAGE_UPGRADABLE_WITNESS_PROGRAM=1 << 12,
         MINIMALIF=1 << 13, NULLFAIL=1 << 14, WITNESS_PUBKEYTYPE=1 << 15, CONST_SCRIPTCODE=1 << 16, TAPROOT=1 << 17, DISCOURAGE_UPGRADABLE_TAPROOT_VERSION=1 << 18,
         DISCOURAGE_OP_SUCCESS=1 << 19, DISCOURAGE_UPGRADABLE_PUBKEYTYPE=1 << 20)
BASE, WITNESS_V0, TAPROOT, TAPSCRIPT = 0, 1, 2, 3
MAX_ELEM = 520; MAX_OPS = 201; MAX_STACK = 1000; MAX_SCRIPT = 10000; MAX_KEYS = 20
LOCKTIME_THRESHOLD = 500000000

_ERR = None
def ERR(name):
    """numeric value of SCRIPT_ERR_<name> in the working tree's header"""
    global _ERR
    if _ERR is None:
        txt = open(os.path.join(REPO, 'script/script_error.h')).read()
        body = re.search(r'typedef enum ScriptError_t\s*\{(.*?)\}', txt, re.S).group(1)
        body = re.sub(r'/\*.*?\*/', '', body, flags=re.S); body = re.sub(r'//[^\n]*', '', body)
        _ERR = {}; v = -1
        for ent in body.split(','):
            ent = ent.strip()
            if not ent: continue
            if '=' in ent:
                n, e = [x.strip() for x in ent.split('=')]; v = int(e, 0) if re.fullmatch(r'[-0-9xXa-fA-F]+', e) else _ERR[e]
            else: n = ent; v += 1
            _ERR[n] = v
    return _ERR['SCRIPT_ERR_' + name]
EXC = 'EXC'      # the operation ends in a C++ exception (script number overflow / non-minimal number / pop of empty stack)

class Fail(Exception):
    def __init__(s, err): s.err = err

# ---- term helpers (everything is a z3 term; constants fold through z3.simplify)
def B(x, bits=8): return x if is_sym(x) else z3.BitVecVal(x, bits)
def flag(flags, name):
    return z3.simplify(z3.Extract(0, 0, z3.LShR(B(flags, 32), F[name].bit_length() - 1)) == 1)
def zext(x, bits): return z3.ZeroExt(bits - x.size(), x) if x.size() < bits else x

def cast_to_bool(item):
    """any non-zero byte, except that a final 0x80 byte alone (negative zero) is false"""
    if not item: return z3.BoolVal(False)
    terms = [B(b) != 0 for b in item[:-1]] + [z3.And(B(item[-1]) != 0, B(item[-1]) != 0x80)]
    return z3.simplify(z3.Or(*terms))

def num_decode(ctx, item, require_minimal, maxsize=4):
    n = len(item)
    if n > maxsize: raise Fail(EXC)
    if n == 0: return z3.BitVecVal(0, 64)
    last = B(item[-1])
    nonmin = (last & 0x7f) == 0
    if n > 1: nonmin = z3.And(nonmin, (B(item[-2]) & 0x80) == 0)
    if ctx.branch(z3.And(require_minimal, nonmin)): raise Fail(EXC)
    mag = z3.Concat(*([last & 0x7f] + [B(b) for b in reversed(item[:-1])])) if n > 1 else (last & 0x7f)
    mag = zext(mag, 64)
    return simp_t(z3.If((last & 0x80) != 0, -mag, mag))

def simp_t(t): return z3.simplify(t)

def num_encode(ctx, v):
    """minimal little-endian sign-magnitude encoding of the 64-bit signed term v (length decided by branching)"""
    v = B(v, 64)
    if ctx.branch(v == 0): return []
    neg = v < 0
    absv = z3.If(neg, -v, v)
    for k in range(1, 9):
        if ctx.branch(z3.ULT(absv, 1 << (8 * k - 1))):
            bs = [simp_t(z3.Extract(8 * i + 7, 8 * i, absv)) for i in range(k)]
            bs[-1] = simp_t(z3.If(neg, bs[-1] | 0x80, bs[-1]))
            return bs
    bs = [simp_t(z3.Extract(8 * i + 7, 8 * i, absv)) for i in range(8)]       # |v| >= 2^63: only INT64_MIN
    return bs + [simp_t(z3.If(neg, z3.BitVecVal(0x80, 8), z3.BitVecVal(0, 8)))]

def getint(v):
    """CScriptNum::getint(): clamp to int32"""
    return simp_t(z3.If(v > 0x7fffffff, z3.BitVecVal(0x7fffffff, 64), z3.If(v < -0x80000000, z3.BitVecVal(-0x80000000, 64), v)))

def boolitem(c): return None   # placeholder (see push_bool)

def items_equal(a, b):
    if len(a) != len(b): return z3.BoolVal(False)
    if not a: return z3.BoolVal(True)
    return z3.simplify(z3.And(*[B(x) == B(y) for x, y in zip(a, b)]))

class RS:
    """reference pre-state of one step"""
    def __init__(s, **kw):
        s.stack = []; s.alt = []; s.vf_size = 0; s.vf_ff = None          # vf_ff: index of first false or None
        s.nop = z3.BitVecVal(0, 32); s.flags = z3.BitVecVal(0, 32); s.sigversion = BASE; s.script = []; s.pc = 0; s.allow_disabled = False
        s.checker = 'base'; s.tx_version = 0; s.tx_locktime = 0; s.tx_sequence = 0
        s.codesep_pos = 0xffffffff; s.opcode_pos = 0; s.pbch = 0; s.weight = 0; s.leaf = [0] * 32; s.mock = []
        s.__dict__.update(kw)
    def copy(s):
        t = RS(); t.__dict__.update(s.__dict__); t.stack = [list(x) for x in s.stack]; t.alt = [list(x) for x in s.alt]; return t

def decode_op(script, pc):
    """(opcode, payload, next_pc) or None when the push runs past the end"""
    if pc >= len(script): return None
    o = script[pc]
    assert not is_sym(o), 'opcode byte must be concrete in a shape'
    pc += 1
    if o <= 0x4e:
        if o < 0x4c: n = o
        else:
            w = {0x4c: 1, 0x4d: 2, 0x4e: 4}[o]
            if pc + w > len(script): return None
            lb = script[pc:pc + w]
            assert not any(is_sym(x) for x in lb), 'push length bytes must be concrete in a shape'
            n = int.from_bytes(bytes(lb), 'little'); pc += w
        if n > len(script) - pc: return None
        return o, script[pc:pc + n], pc + n
    return o, [], pc

def check_minimal_push(ctx, data, o):
    n = len(data)
    if n == 0: return o == 0
    if n == 1:
        b = B(data[0])
        if ctx.branch(z3.And(z3.UGE(b, 1), z3.ULE(b, 16))): return False       # OP_1..OP_16 must be used
        if ctx.branch(b == 0x81): return False                                  # OP_1NEGATE must be used
    if n <= 75: return o == n
    if n <= 255: return o == 0x4c
    if n <= 65535: return o == 0x4d
    return True

def ref_step(ctx, S):
    """one operation from pre-state S. Returns dict(ok=1, state...) or dict(ok=0, err=...)"""
    S = S.copy()
    try:
        _step(ctx, S)
    except Fail as f:
        return dict(ok=0, err=f.err)
    return dict(ok=1, stack=S.stack, alt=S.alt, vf=(S.vf_size, S.vf_size if S.vf_ff is None else S.vf_ff), nop=simp_t(B(S.nop, 32)), pc=S.pc,
                pbch=S.pbch, codesep=S.codesep_pos)

def _pop(S):
    if not S.stack: raise Fail(EXC)
    return S.stack.pop()

def _step(ctx, S):
    flags = S.flags
    fexec = S.vf_ff is None
    d = decode_op(S.script, S.pc)
    if d is None: raise Fail(ERR('BAD_OPCODE'))
    o, payload, npc = d
    S.pc = npc
    if len(payload) > MAX_ELEM: raise Fail(ERR('PUSH_SIZE'))
    if S.sigversion in (BASE, WITNESS_V0) and o > 0x60:
        S.nop = simp_t(B(S.nop, 32) + 1)
        if ctx.branch(S.nop > MAX_OPS): raise Fail(ERR('OP_COUNT'))
    if S.sigversion == TAPSCRIPT and is_op_success(o):
        raise RefAbort('OP_SUCCESSx in tapscript: outside the compared domain')
    if o in DISABLED and not S.allow_disabled: raise Fail(ERR('DISABLED_OPCODE'))
    if o == OP['OP_CODESEPARATOR'] and S.sigversion == BASE and ctx.branch(flag(flags, 'CONST_SCRIPTCODE')): raise Fail(ERR('OP_CODESEPARATOR'))
    minimal = flag(flags, 'MINIMALDATA')
    st = S.stack
    def need(n):
        if len(st) < n: raise Fail(ERR('INVALID_STACK_OPERATION'))
    def num(item, maxsize=4): return num_decode(ctx, item, minimal, maxsize)
    def push_num(v): st.append(num_encode(ctx, v))
    def push_bool(c):
        if ctx.branch(c): st.append([z3.BitVecVal(1, 8)])
        else: st.append([])
    if fexec and o <= 0x4e:
        if ctx.branch(minimal) and not check_minimal_push(ctx, payload, o): raise Fail(ERR('MINIMALDATA'))
        st.append(list(payload))
    elif fexec or (0x63 <= o <= 0x68):
        n = NAME.get(o, 'UNDEFINED')
        if o in DISABLED:
            if len(st) < EXT_ARITY[n]: raise Fail(ERR('INVALID_STACK_OPERATION'))
            try: _extended(ctx, S, n, minimal)
            except Fail: raise Fail(ANYERR)          # invalid operand: some script error / caught exception, which one is not prescribed
        elif o == 0x4f or 0x51 <= o <= 0x60:
            push_num(z3.BitVecVal(o - 0x50, 64))
        elif n == 'OP_NOP': pass
        elif n == 'OP_CHECKLOCKTIMEVERIFY':
            if ctx.branch(flag(flags, 'CHECKLOCKTIMEVERIFY')):
                need(1)
                lt = num(st[-1], 5)
                if ctx.branch(lt < 0): raise Fail(ERR('NEGATIVE_LOCKTIME'))
                if not ctx.branch(check_locktime(S, lt)): raise Fail(ERR('UNSATISFIED_LOCKTIME'))
        elif n == 'OP_CHECKSEQUENCEVERIFY':
            if ctx.branch(flag(flags, 'CHECKSEQUENCEVERIFY')):
                need(1)
                sq = num(st[-1], 5)
                if ctx.branch(sq < 0): raise Fail(ERR('NEGATIVE_LOCKTIME'))
                if not ctx.branch((sq & (1 << 31)) != 0):
                    if not ctx.branch(check_sequence(S, sq)): raise Fail(ERR('UNSATISFIED_LOCKTIME'))
        elif n in ('OP_NOP1', 'OP_NOP4', 'OP_NOP5', 'OP_NOP6', 'OP_NOP7', 'OP_NOP8', 'OP_NOP9', 'OP_NOP10'):
            if ctx.branch(flag(flags, 'DISCOURAGE_UPGRADABLE_NOPS')): raise Fail(ERR('DISCOURAGE_UPGRADABLE_NOPS'))
        elif n in ('OP_IF', 'OP_NOTIF'):
            val = False
            if fexec:
                if len(st) < 1: raise Fail(ERR('UNBALANCED_CONDITIONAL'))
                top = st[-1]
                nonmin = z3.BoolVal(True) if len(top) > 1 else (B(top[0]) != 1 if len(top) == 1 else z3.BoolVal(False))
                if S.sigversion == TAPSCRIPT and ctx.branch(nonmin): raise Fail(ERR('TAPSCRIPT_MINIMALIF'))
                if S.sigversion == WITNESS_V0 and ctx.branch(z3.And(flag(flags, 'MINIMALIF'), nonmin)): raise Fail(ERR('MINIMALIF'))
                val = ctx.branch(cast_to_bool(top))
                if n == 'OP_NOTIF': val = not val
                st.pop()
            if S.vf_ff is None and not val: S.vf_ff = S.vf_size
            S.vf_size += 1
        elif n == 'OP_ELSE':
            if S.vf_size == 0: raise Fail(ERR('UNBALANCED_CONDITIONAL'))
            if S.vf_ff is None: S.vf_ff = S.vf_size - 1
            elif S.vf_ff == S.vf_size - 1: S.vf_ff = None
        elif n == 'OP_ENDIF':
            if S.vf_size == 0: raise Fail(ERR('UNBALANCED_CONDITIONAL'))
            S.vf_size -= 1
            if S.vf_ff == S.vf_size: S.vf_ff = None
        elif n == 'OP_VERIFY':
            need(1)
            if ctx.branch(cast_to_bool(st[-1])): st.pop()
            else: raise Fail(ERR('VERIFY'))
        elif n == 'OP_RETURN': raise Fail(ERR('OP_RETURN'))
        elif n == 'OP_TOALTSTACK': need(1); S.alt.append(st.pop())
        elif n == 'OP_FROMALTSTACK':
            if len(S.alt) < 1: raise Fail(ERR('INVALID_ALTSTACK_OPERATION'))
            st.append(S.alt.pop())
        elif n == 'OP_2DROP': need(2); st.pop(); st.pop()
        elif n == 'OP_2DUP': need(2); st.extend([list(st[-2]), list(st[-1])])
        elif n == 'OP_3DUP': need(3); st.extend([list(st[-3]), list(st[-2]), list(st[-1])])
        elif n == 'OP_2OVER': need(4); st.extend([list(st[-4]), list(st[-3])])
        elif n == 'OP_2ROT': need(6); a = st[-6]; b = st[-5]; del st[-6:-4]; st.extend([a, b])
        elif n == 'OP_2SWAP': need(4); st[-4], st[-3], st[-2], st[-1] = st[-2], st[-1], st[-4], st[-3]
        elif n == 'OP_IFDUP':
            need(1)
            if ctx.branch(cast_to_bool(st[-1])): st.append(list(st[-1]))
        elif n == 'OP_DEPTH': push_num(z3.BitVecVal(len(st), 64))
        elif n == 'OP_DROP': need(1); st.pop()
        elif n == 'OP_DUP': need(1); st.append(list(st[-1]))
        elif n == 'OP_NIP': need(2); del st[-2]
        elif n == 'OP_OVER': need(2); st.append(list(st[-2]))
        elif n in ('OP_PICK', 'OP_ROLL'):
            need(2)
            k = getint(num(st[-1]))
            st.pop()
            if ctx.branch(z3.Or(k < 0, k >= len(st))): raise Fail(ERR('INVALID_STACK_OPERATION'))
            for i in range(len(st)):
                if ctx.branch(k == i):
                    it = st[-i - 1]
                    if n == 'OP_ROLL': del st[-i - 1]
                    st.append(list(it)); break
            else: raise AssertionError('unreachable')
        elif n == 'OP_ROT': need(3); st[-3], st[-2], st[-1] = st[-2], st[-1], st[-3]
        elif n == 'OP_SWAP': need(2); st[-2], st[-1] = st[-1], st[-2]
        elif n == 'OP_TUCK': need(2); st.insert(len(st) - 2, list(st[-1]))
        elif n == 'OP_SIZE': need(1); push_num(z3.BitVecVal(len(st[-1]), 64))
        elif n in ('OP_EQUAL', 'OP_EQUALVERIFY'):
            need(2)
            e = items_equal(st[-2], st[-1]); st.pop(); st.pop()
            if n == 'OP_EQUAL': push_bool(e)
            elif not ctx.branch(e): raise Fail(ERR('EQUALVERIFY'))
        elif n in ('OP_1ADD', 'OP_1SUB', 'OP_NEGATE', 'OP_ABS', 'OP_NOT', 'OP_0NOTEQUAL'):
            need(1)
            a = num(st[-1])
            r = {'OP_1ADD': lambda: a + 1, 'OP_1SUB': lambda: a - 1, 'OP_NEGATE': lambda: -a, 'OP_ABS': lambda: z3.If(a < 0, -a, a),
                 'OP_NOT': lambda: z3.If(a == 0, z3.BitVecVal(1, 64), z3.BitVecVal(0, 64)), 'OP_0NOTEQUAL': lambda: z3.If(a != 0, z3.BitVecVal(1, 64), z3.BitVecVal(0, 64))}[n]()
            st.pop(); push_num(simp_t(r))
        elif n in ('OP_ADD', 'OP_SUB', 'OP_BOOLAND', 'OP_BOOLOR', 'OP_NUMEQUAL', 'OP_NUMEQUALVERIFY', 'OP_NUMNOTEQUAL', 'OP_LESSTHAN', 'OP_GREATERTHAN',
                   'OP_LESSTHANOREQUAL', 'OP_GREATERTHANOREQUAL', 'OP_MIN', 'OP_MAX'):
            need(2)
            a = num(st[-2]); b = num(st[-1])
            bi = lambda c: z3.If(c, z3.BitVecVal(1, 64), z3.BitVecVal(0, 64))
            r = {'OP_ADD': lambda: a + b, 'OP_SUB': lambda: a - b, 'OP_BOOLAND': lambda: bi(z3.And(a != 0, b != 0)), 'OP_BOOLOR': lambda: bi(z3.Or(a != 0, b != 0)),
                 'OP_NUMEQUAL': lambda: bi(a == b), 'OP_NUMEQUALVERIFY': lambda: bi(a == b), 'OP_NUMNOTEQUAL': lambda: bi(a != b), 'OP_LESSTHAN': lambda: bi(a < b),
                 'OP_GREATERTHAN': lambda: bi(a > b), 'OP_LESSTHANOREQUAL': lambda: bi(a <= b), 'OP_GREATERTHANOREQUAL': lambda: bi(a >= b),
                 'OP_MIN': lambda: z3.If(a < b, a, b), 'OP_MAX': lambda: z3.If(a > b, a, b)}[n]()
            st.pop(); st.pop()
            if n == 'OP_NUMEQUALVERIFY':
                if not ctx.branch(a == b): raise Fail(ERR('NUMEQUALVERIFY'))
            else: push_num(simp_t(r))
        elif n == 'OP_WITHIN':
            need(3)
            x = num(st[-3]); lo = num(st[-2]); hi = num(st[-1])
            st.pop(); st.pop(); st.pop(); push_bool(z3.And(lo <= x, x < hi))
        elif n in ('OP_RIPEMD160', 'OP_SHA1', 'OP_SHA256', 'OP_HASH160', 'OP_HASH256'):
            need(1)
            f = {'OP_RIPEMD160': hashref.ripemd160, 'OP_SHA1': hashref.sha1, 'OP_SHA256': hashref.sha256, 'OP_HASH160': hashref.hash160, 'OP_HASH256': hashref.hash256}[n]
            d = f(list(st[-1])); st.pop(); st.append(d)
        elif n == 'OP_CODESEPARATOR':
            S.pbch = S.pc; S.codesep_pos = S.opcode_pos
        elif o in SIGOPS:
            raise RefAbort('signature opcode: property C02')
        else:
            raise Fail(ERR('BAD_OPCODE'))          # OP_VER, OP_VERIF, OP_VERNOTIF, OP_RESERVED*, undefined values
    if len(S.stack) + len(S.alt) > MAX_STACK: raise Fail(ERR('STACK_SIZE'))

def check_locktime(S, lt):
    """BIP65 against the spending transaction (lock time, input sequence); no transaction => never satisfied"""
    if S.checker == 'base': return z3.BoolVal(False)
    txlt = zext(B(S.tx_locktime, 32), 64); seq = B(S.tx_sequence, 32)
    same = z3.Or(z3.And(txlt < LOCKTIME_THRESHOLD, lt < LOCKTIME_THRESHOLD), z3.And(txlt >= LOCKTIME_THRESHOLD, lt >= LOCKTIME_THRESHOLD))
    return z3.simplify(z3.And(same, lt <= txlt, seq != 0xffffffff))

def check_sequence(S, sq):
    """BIP112 against the spending transaction (version, input sequence)"""
    if S.checker == 'base': return z3.BoolVal(False)
    ver = B(S.tx_version, 32); seq = zext(B(S.tx_sequence, 32), 64)
    TYPE = 1 << 22; MASK = TYPE | 0xffff
    a = sq & MASK; b = seq & MASK
    same = z3.Or(z3.And(a < TYPE, b < TYPE), z3.And(a >= TYPE, b >= TYPE))
    return z3.simplify(z3.And(z3.UGE(ver, 2), (seq & (1 << 31)) == 0, same, a <= b))

EXT_ARITY = {'OP_CAT': 2, 'OP_SUBSTR': 3, 'OP_LEFT': 2, 'OP_RIGHT': 2, 'OP_INVERT': 1, 'OP_AND': 2, 'OP_OR': 2, 'OP_XOR': 2, 'OP_2MUL': 1, 'OP_2DIV': 1, 'OP_MUL': 2, 'OP_DIV': 2, 'OP_MOD': 2, 'OP_LSHIFT': 2, 'OP_RSHIFT': 2}
ANYERR = '*'      # the operation must fail with some script error (which one is not prescribed), and must not crash

def _extended(ctx, S, n, minimal):
    """the functions the re-enabled opcode names denote (string, bitwise and signed 64-bit integer functions on script values).
    Domain compared: numeric operands of at most 4 bytes; results that fit the script-number range of int64.
    Outside it (stated in the evidence) only crash-freedom is demanded."""
    st = S.stack
    def need(k):
        if len(st) < k: raise Fail(ERR('INVALID_STACK_OPERATION'))
    def num(item):
        if len(item) > 4: raise RefAbort('numeric operand longer than 4 bytes: outside the compared domain of C17')
        return num_decode(ctx, item, minimal, 4)
    def idx(item):
        # offsets / sizes: small non-negative numbers; the implementation's 2-byte limit is accepted (longer => must fail)
        if len(item) > 2: raise Fail(ANYERR)
        return num_decode(ctx, item, minimal, 2)
    if n == 'OP_CAT':
        need(2); b = st.pop(); a = st.pop()
        if len(a) + len(b) > MAX_ELEM: raise RefAbort('concatenation longer than 520 bytes: not prescribed')
        st.append(list(a) + list(b))
    elif n == 'OP_SUBSTR':
        need(3)
        src = st[-3]; b = idx(st[-2]); k = idx(st[-1])
        if ctx.branch(z3.Or(b < 0, k < 0, b + k > len(src))): raise Fail(ANYERR)
        for bi in range(len(src) + 1):
            if ctx.branch(b == bi):
                for ki in range(len(src) - bi + 1):
                    if ctx.branch(k == ki):
                        st.pop(); st.pop(); st.pop(); st.append(list(src[bi:bi + ki])); return
        raise AssertionError('unreachable')
    elif n in ('OP_LEFT', 'OP_RIGHT'):
        need(2)
        src = st[-2]; k = idx(st[-1])
        if ctx.branch(z3.Or(k < 0, k > len(src))): raise Fail(ANYERR)
        for ki in range(len(src) + 1):
            if ctx.branch(k == ki):
                st.pop(); st.pop(); st.append(list(src[:ki]) if n == 'OP_LEFT' else list(src[len(src) - ki:])); return
        raise AssertionError('unreachable')
    elif n == 'OP_INVERT':
        need(1); a = st.pop(); st.append([simp_t(~B(x)) for x in a])
    elif n in ('OP_AND', 'OP_OR', 'OP_XOR'):
        need(2)
        if len(st[-1]) != len(st[-2]): raise Fail(ANYERR)
        b = st.pop(); a = st.pop()
        f = {'OP_AND': lambda x, y: x & y, 'OP_OR': lambda x, y: x | y, 'OP_XOR': lambda x, y: x ^ y}[n]
        st.append([simp_t(f(B(x), B(y))) for x, y in zip(a, b)])
    elif n in ('OP_2MUL', 'OP_2DIV'):
        need(1)
        a = num(st[-1]); st.pop()
        r = a * 2 if n == 'OP_2MUL' else z3.If(a < 0, -((-a) / 2), a / 2)        # truncation toward zero
        st.append(num_encode(ctx, simp_t(r)))
    elif n in ('OP_MUL', 'OP_DIV', 'OP_MOD', 'OP_LSHIFT', 'OP_RSHIFT'):
        need(2)
        a = num(st[-2]); b = num(st[-1])
        if n in ('OP_DIV', 'OP_MOD') and ctx.branch(b == 0): raise Fail(ANYERR)
        if n in ('OP_LSHIFT', 'OP_RSHIFT'):
            if ctx.branch(z3.Or(b < 0, b >= 64)): raise RefAbort('shift count negative or >= 64: result not prescribed (only crash-freedom)')
            if n == 'OP_LSHIFT' and ctx.branch(a < 0): raise RefAbort('left shift of a negative number: not prescribed (sign-magnitude vs two\'s complement)')
            if n == 'OP_RSHIFT' and ctx.branch(a < 0):
                # a signed right shift divides by 2^b; the two readings (two's complement: floor, sign-magnitude: toward zero) agree when the division is exact -
                # there the result is prescribed, elsewhere it is not (seed C17-8: a logical shift of the 64-bit pattern is neither)
                fl = a >> b; tr = -z3.LShR(-a, b)
                if ctx.branch(fl != tr): raise RefAbort('right shift of a negative number with a remainder: rounding not prescribed (floor vs toward zero)')
                st.pop(); st.pop(); st.append(num_encode(ctx, simp_t(fl))); return
            if n == 'OP_LSHIFT' and ctx.branch(z3.Or(b >= 32, a >= (1 << 31))): raise RefAbort('left shift beyond the 64-bit range: not prescribed')
        absa = z3.If(a < 0, -a, a); absb = z3.If(b < 0, -b, b)
        if n == 'OP_MUL': r = a * b
        elif n == 'OP_DIV': q = z3.UDiv(absa, absb); r = z3.If((a < 0) != (b < 0), -q, q)
        elif n == 'OP_MOD': m = z3.URem(absa, absb); r = z3.If(a < 0, -m, m)
        elif n == 'OP_LSHIFT': r = a << b
        else: r = z3.LShR(a, b)
        st.pop(); st.pop(); st.append(num_encode(ctx, simp_t(r)))
    else: raise AssertionError(n)

# ====================================================================== signature opcodes (C02 / C11)
# The cryptographic verdict is an uninterpreted oracle shared with the implementation side (stubs.orc_app):
#   ORACLE(1, sig, key, scriptCode, sigversion)      ECDSA check of (sig incl. hash type byte) by key over the digest of scriptCode
#   ORACLE(2, sig, key, leafhash||codesep_pos, sv)   BIP340 check in the taproot/tapscript context
# and CheckLowS(sig without hash type) is the uninterpreted predicate LOWS_n.
import stubs as _stubs
_LOWS = {}
def lows(sig_wo_ht):
    n = len(sig_wo_ht)
    F = _LOWS.get(n)
    if F is None: F = z3.Function('lows_%d' % n, z3.BitVecSort(8 * n), z3.BoolSort()); _LOWS[n] = F
    return F(_stubs.cat([B(x) for x in sig_wo_ht], 8))

def valid_der(sig):
    """BIP66 strict DER + hash type byte, as one boolean term over the bytes of a signature of concrete length"""
    n = len(sig)
    if n < 9 or n > 73: return z3.BoolVal(False)
    s = [B(x) for x in sig]
    alts = []
    for lr in range(1, n - 7):
        ls = n - 7 - lr
        if ls < 1: continue
        c = [s[0] == 0x30, s[1] == n - 3, s[2] == 0x02, s[3] == lr, (s[4] & 0x80) == 0, s[4 + lr] == 0x02, s[5 + lr] == ls, (s[6 + lr] & 0x80) == 0]
        if lr > 1: c.append(z3.Not(z3.And(s[4] == 0, (s[5] & 0x80) == 0)))
        if ls > 1: c.append(z3.Not(z3.And(s[6 + lr] == 0, (s[7 + lr] & 0x80) == 0)))
        alts.append(z3.And(*c))
    return z3.simplify(z3.Or(*alts)) if alts else z3.BoolVal(False)

def defined_hashtype(sig):
    if not sig: return z3.BoolVal(False)
    ht = B(sig[-1]) & 0x7f
    return z3.And(z3.UGE(ht, 1), z3.ULE(ht, 3))

def check_sig_encoding(ctx, sig, flags):
    if len(sig) == 0: return
    if ctx.branch(z3.And(z3.Or(flag(flags, 'DERSIG'), flag(flags, 'LOW_S'), flag(flags, 'STRICTENC')), z3.Not(valid_der(sig)))): raise Fail(ERR('SIG_DER'))
    if ctx.branch(flag(flags, 'LOW_S')):
        if not ctx.branch(lows(sig[:-1])): raise Fail(ERR('SIG_HIGH_S'))
    if ctx.branch(z3.And(flag(flags, 'STRICTENC'), z3.Not(defined_hashtype(sig)))): raise Fail(ERR('SIG_HASHTYPE'))

def compressed_or_uncompressed(key):
    n = len(key)
    if n < 33: return z3.BoolVal(False)
    k0 = B(key[0])
    if n == 65: return k0 == 4
    if n == 33: return z3.Or(k0 == 2, k0 == 3)
    return z3.BoolVal(False)
def compressed(key):
    if len(key) != 33: return z3.BoolVal(False)
    return z3.Or(B(key[0]) == 2, B(key[0]) == 3)

def check_pubkey_encoding(ctx, key, flags, sv):
    if ctx.branch(z3.And(flag(flags, 'STRICTENC'), z3.Not(compressed_or_uncompressed(key)))): raise Fail(ERR('PUBKEYTYPE'))
    if sv == WITNESS_V0 and ctx.branch(z3.And(flag(flags, 'WITNESS_PUBKEYTYPE'), z3.Not(compressed(key)))): raise Fail(ERR('WITNESS_PUBKEYTYPE'))

def push_encoding(data):
    n = len(data)
    if n < 0x4c: return [n] + list(data)
    if n <= 0xff: return [0x4c, n] + list(data)
    if n <= 0xffff: return [0x4d] + list(n.to_bytes(2, 'little')) + list(data)
    return [0x4e] + list(n.to_bytes(4, 'little')) + list(data)

def find_and_delete(ctx, script, pat):
    """remove every occurrence of the byte pattern that starts at an operation boundary (legacy signature removal). returns (script', count)"""
    if not pat: return list(script), 0
    out = []; pc = 0; found = 0; n = len(script)
    while True:
        while n - pc >= len(pat):
            m = z3.And(*[B(script[pc + i]) == B(pat[i]) for i in range(len(pat))])
            if ctx.branch(m): pc += len(pat); found += 1
            else: break
        d = decode_op(script, pc)
        if d is None:
            out += script[pc:]; break               # undecodable tail is kept as is
        o, payload, npc = d
        out += script[pc:npc]; pc = npc
        if pc >= n:
            break
    return out, found

def oracle(kind, sig, key, ctxbytes, sv):
    return _stubs.orc_app(kind, [B(x) for x in sig], [B(x) for x in key], [B(x) for x in ctxbytes], sv)

def eval_checksig(ctx, S, sig, key):
    """returns success (python bool, decided by branching) or raises Fail"""
    flags = S.flags; sv = S.sigversion
    mocked = mock_lookup(ctx, S, sig, key)
    if mocked is True: return True
    if sv == TAPROOT:
        ok = ctx.branch(oracle(2, sig, key, list(S.leaf) + le32(S.codesep_pos), sv))
        if not ok: raise Fail(ANYERR)
        return True
    if sv in (BASE, WITNESS_V0):
        code = list(S.script[S.pbch:])
        if sv == BASE:
            code, found = find_and_delete(ctx, code, push_encoding(sig))
            if found > 0 and ctx.branch(flag(flags, 'CONST_SCRIPTCODE')): raise Fail(ERR('SIG_FINDANDDELETE'))
        check_sig_encoding(ctx, sig, flags)
        check_pubkey_encoding(ctx, key, flags, sv)
        ok = ctx.branch(oracle(1, sig, key, code, sv))
        if not ok and len(sig) and ctx.branch(flag(flags, 'NULLFAIL')): raise Fail(ERR('SIG_NULLFAIL'))
        return ok
    # tapscript (BIP342)
    ok = len(sig) > 0
    if ok:
        S.weight = z3.simplify(B(S.weight, 64) - 50)
        if ctx.branch(S.weight < 0): raise Fail(ERR('TAPSCRIPT_VALIDATION_WEIGHT'))
    if len(key) == 0: raise Fail(ERR('PUBKEYTYPE'))
    if len(key) == 32:
        if ok and not ctx.branch(oracle(2, sig, key, list(S.leaf) + le32(S.codesep_pos), sv)): raise Fail(ERR('SCHNORR_SIG'))
    else:
        if ctx.branch(flag(flags, 'DISCOURAGE_UPGRADABLE_PUBKEYTYPE')): raise Fail(ERR('DISCOURAGE_UPGRADABLE_PUBKEYTYPE'))
    return ok

def le32(v):
    v = B(v, 32)
    return [z3.simplify(z3.Extract(8 * i + 7, 8 * i, v)) for i in range(4)]

def mock_lookup(ctx, S, sig, key):
    """--pretend-valid pairs: True = listed pair (accept), False = key is mocked but sig differs (fall through to real check), None = key not mocked"""
    pairs = getattr(S, 'mock', None) or []
    key_mocked = False
    for (ms, mk) in pairs:
        if len(mk) == len(key) and ctx.branch(items_equal(mk, key)):
            key_mocked = True
            if len(ms) == len(sig) and ctx.branch(items_equal(ms, sig)): return True
    return False if key_mocked else None

def ref_sigop(ctx, S):
    """one signature opcode at S.pc (same outcome structure as ref_step, plus weight)"""
    S = S.copy()
    try: _sigop(ctx, S)
    except Fail as f: return dict(ok=0, err=f.err)
    return dict(ok=1, stack=S.stack, alt=S.alt, vf=(S.vf_size, S.vf_size if S.vf_ff is None else S.vf_ff), nop=simp_t(B(S.nop, 32)), pc=S.pc, pbch=S.pbch, codesep=S.codesep_pos,
                weight=simp_t(B(S.weight, 64)))

def _sigop(ctx, S):
    flags = S.flags; sv = S.sigversion
    fexec = S.vf_ff is None
    o = S.script[S.pc]; S.pc += 1
    n = NAME[o]
    if sv in (BASE, WITNESS_V0):
        S.nop = simp_t(B(S.nop, 32) + 1)
        if ctx.branch(S.nop > MAX_OPS): raise Fail(ERR('OP_COUNT'))
    if not fexec:
        if len(S.stack) + len(S.alt) > MAX_STACK: raise Fail(ERR('STACK_SIZE'))
        return
    st = S.stack
    minimal = flag(flags, 'MINIMALDATA')
    def need(k):
        if len(st) < k: raise Fail(ERR('INVALID_STACK_OPERATION'))
    def push_bool(c): st.append([z3.BitVecVal(1, 8)] if c else [])
    if n in ('OP_CHECKSIG', 'OP_CHECKSIGVERIFY'):
        need(2)
        ok = eval_checksig(ctx, S, st[-2], st[-1])
        st.pop(); st.pop()
        if n == 'OP_CHECKSIG': push_bool(ok)
        elif not ok: raise Fail(ERR('CHECKSIGVERIFY'))
    elif n == 'OP_CHECKSIGADD':
        if sv in (BASE, WITNESS_V0): raise Fail(ERR('BAD_OPCODE'))
        need(3)
        num = num_decode(ctx, st[-2], minimal, 4)
        ok = eval_checksig(ctx, S, st[-3], st[-1])
        st.pop(); st.pop(); st.pop()
        st.append(num_encode(ctx, simp_t(num + (1 if ok else 0))))
    else:       # OP_CHECKMULTISIG(VERIFY)
        if sv == TAPSCRIPT: raise Fail(ERR('TAPSCRIPT_CHECKMULTISIG'))
        need(1)
        nk_t = getint(num_decode(ctx, st[-1], minimal, 4))
        if ctx.branch(z3.Or(nk_t < 0, nk_t > MAX_KEYS)): raise Fail(ERR('PUBKEY_COUNT'))
        nk = None
        for k in range(0, MAX_KEYS + 1):
            if ctx.branch(nk_t == k): nk = k; break
        S.nop = simp_t(B(S.nop, 32) + nk)
        if ctx.branch(S.nop > MAX_OPS): raise Fail(ERR('OP_COUNT'))
        need(2 + nk)
        ns_t = getint(num_decode(ctx, st[-(2 + nk)], minimal, 4))
        if ctx.branch(z3.Or(ns_t < 0, ns_t > nk)): raise Fail(ERR('SIG_COUNT'))
        ns = None
        for k in range(0, nk + 1):
            if ctx.branch(ns_t == k): ns = k; break
        need(3 + nk + ns)             # count item, keys, count item, signatures and the extra (dummy) element
        keys = [st[-(2 + i)] for i in range(nk)]            # keys[0] is the top-most key (checked first)
        sigs = [st[-(3 + nk + i)] for i in range(ns)]       # sigs[0] is the top-most signature
        code = list(S.script[S.pbch:])
        for sg in sigs:
            if sv == BASE:
                code, found = find_and_delete(ctx, code, push_encoding(sg))
                if found > 0 and ctx.branch(flag(flags, 'CONST_SCRIPTCODE')): raise Fail(ERR('SIG_FINDANDDELETE'))
        isig = 0; ikey = 0; success = True; sigs_left = ns; keys_left = nk
        while success and sigs_left > 0:
            sg = sigs[isig]; ky = keys[ikey]
            m = mock_lookup(ctx, S, sg, ky)
            if m is None:
                check_sig_encoding(ctx, sg, flags)
                check_pubkey_encoding(ctx, ky, flags, sv)
                ok = ctx.branch(oracle(1, sg, ky, code, sv))
            elif m is False:
                # a mocked key offered a signature that is not its partner.  If that signature is itself a listed one (it belongs to another key of this
                # multisig), it must simply not match here: listed signatures are exempt from the encoding rules (doc/mock-values.md), otherwise the pair
                # it is listed in could never succeed in a multisig under DERSIG/STRICTENC.  For an unlisted signature whether the real check still runs
                # is not prescribed.
                if any(len(ms) == len(sg) and ctx.branch(items_equal(ms, sg)) for (ms, mk) in (getattr(S, 'mock', None) or [])): ok = False
                else: raise RefAbort('multisig: mocked key offered an unlisted signature: whether the real check still runs is not prescribed')
            else: ok = m
            if ok: isig += 1; sigs_left -= 1
            ikey += 1; keys_left -= 1
            if sigs_left > keys_left: success = False
        # cleanup: all arguments are removed; with NULLFAIL a failed check requires every signature to be empty
        total = 1 + nk + 1 + ns
        if not success:
            for sg in sigs:
                if len(sg) and ctx.branch(flag(flags, 'NULLFAIL')): raise Fail(ERR('SIG_NULLFAIL'))
        del st[-total:]
        if len(st) < 1: raise Fail(ERR('INVALID_STACK_OPERATION'))
        if len(st[-1]) and ctx.branch(flag(flags, 'NULLDUMMY')): raise Fail(ERR('SIG_NULLDUMMY'))
        st.pop()
        if n == 'OP_CHECKMULTISIG': push_bool(success)
        elif not success: raise Fail(ERR('CHECKMULTISIGVERIFY'))
    if len(S.stack) + len(S.alt) > MAX_STACK: raise Fail(ERR('STACK_SIZE'))
