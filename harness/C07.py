"""C07 - btcc assembles every token sequence into the exact minimal encoding."""
import z3
import stubs, hlib, refscript as R, refexec, sesslib
from irsym import is_sym, bv, simp
from core import mkres, EncoderMismatch
import build as _b
import C16

ID = 'C07'
TITLE = "btcc's real pipeline (Value::parse_args -> Value(const char*) -> operator>>(CScript&) -> Value::serialize) on token sequences with symbolic characters, and the emission kernels on symbolic bytes / all int64, against the documented grammar with minimal-push emission"
TUS = ['value', 'script', 'dbgscript', 'strenc', 'sha256', 'ripemd160', 'hash', 'uint256', 'base58', 'bech32', 'pubkey']
SHIMS = ['btcc']
NATIVE_TUS = _b.ALL_NATIVE
FUNCTIONS = ['btcc main pipeline', 'Value::parse_args (argv form and string form with bracket depth)', 'Value::Value(const char*, size_t, bool)', 'Value::operator>>(CScript&)', 'Value::serialize', 'CScript::push_int64',
             'CScript::operator<<(vector)', 'CScriptNum::serialize', 'GetOpCode', 'TryHex', 'HexStr', 'atoll/snprintf/strcmp (stubs, precise)']
ASSUMPTIONS = ['allocation never fails', 'libc atoll/snprintf/strcmp/strndup are modelled precisely in Python (engine/libc.py)', 'a hex literal denotes a push of exactly its bytes in minimal-push form; a decimal literal the minimal push of the number',
               'ambiguous digit-only strings are numbers (documented)', 'inline function forms name(arg) are C14']
OUTSIDE = ['decimal literals with more than 4 symbolic digits (18-19 symbolic digits: solver unknown after 30 s on the x10 chains; the widest literals are covered as concrete boundary values)', 'hex literals longer than 8 bytes except the 75/76 and 255/256 emission boundaries', 'nesting deeper than 3', 'whitespace/comment variants inside brackets beyond single spaces']
BOUNDS = 'emission: data lengths 0..6,75,76,255,256,520 (all bytes symbolic), every int64; tokens: 0x+{0,1,2,3,4,5,8} symbolic bytes, bare hex of 1,2,4 bytes, decimals of 1-4 symbolic digits (+sign), every opcode name in both spellings; sequences of up to 3 tokens; bracket nesting 1..3 with symbolic payloads'

def setup(E):
    stubs.install_all(E)
    E.stubs.pop('_Z6HexStrB5cxx114SpanIKhE', None)        # the printed hex is the observable: run the real HexStr

def minimal_push(ctx, data):
    """shortest-form push of exactly these bytes (BIP62 rule 3)"""
    n = len(data)
    if n == 0: return [0x00]
    if n == 1:
        b = R.B(data[0])
        if ctx.branch(z3.And(z3.UGE(b, 1), z3.ULE(b, 16))): return [z3.simplify(b + 0x50)]
        if ctx.branch(b == 0x81): return [0x4f]
    return R.push_encoding(data)

def push_number(ctx, v):
    """minimal push of the number v (64-bit term)"""
    if ctx.branch(v == 0): return [0x00]
    if ctx.branch(z3.Or(v == -1, z3.And(v >= 1, v <= 16))): return [z3.simplify(z3.Extract(7, 0, v) + 0x50)]
    bs = R.num_encode(ctx, v)
    return R.push_encoding(bs)

HEXL = '0123456789abcdef'
def to_hex(bs):
    out = []
    for b in bs:
        b = R.B(b)
        for nib in (z3.LShR(b, 4), b & 0xf): out.append(z3.simplify(z3.If(z3.ULT(nib, 10), nib + 0x30, nib + 0x57)))
    return out

# token kinds: ('op', name) ('hex0x', nbytes) ('hex', nbytes) ('dec', ndigits, sign) ('lit', text) ('br', [tokens])
def tok_chars(t, pfx, sym, V, assume):
    def var(n): return z3.BitVec(n, 8) if sym else V.get(n, 0)
    k = t[0]
    if k in ('op', 'lit'): return list(t[1].encode()), None
    if k in ('hex0x', 'hex'):
        cs = [var('%sh%d' % (pfx, i)) for i in range(2 * t[1])]
        if sym:
            for c in cs: assume.append(z3.Or(z3.And(z3.UGE(c, 48), z3.ULE(c, 57)), z3.And(z3.UGE(c, 97), z3.ULE(c, 102))))
            if k == 'hex' and cs: assume.append(z3.UGE(cs[0], 97))          # bare hex must not read as a decimal number
        return (list(b'0x') if k == 'hex0x' else []) + cs, cs
    if k == 'hexL':
        # long 0x literal: concrete bytes 0xab except the last one (two symbolic hex digits)
        cs = [var('%sh%d' % (pfx, i)) for i in range(2)]
        if sym:
            for c in cs: assume.append(z3.Or(z3.And(z3.UGE(c, 48), z3.ULE(c, 57)), z3.And(z3.UGE(c, 97), z3.ULE(c, 102))))
        return list(b'0x') + list(b'ab' * (t[1] - 1)) + cs, cs
    if k == 'dec':
        cs = [var('%sd%d' % (pfx, i)) for i in range(t[1])]
        if sym:
            for c in cs: assume.append(z3.And(z3.UGE(c, 48), z3.ULE(c, 57)))
            assume.append(cs[0] != 48)
        return ([45] if t[2] else []) + cs, cs
    if k == 'br':
        out = [ord('[')]; allsym = []
        for i, u in enumerate(t[1]):
            if i: out.append(32)
            c, s = tok_chars(u, pfx + 'b%d' % i, sym, V, assume); out += c
            if s: allsym += s
        return out + [ord(']')], allsym
    raise Exception(k)

def hexv(c):
    c = R.B(c); return z3.If(z3.ULE(c, 57), c - 48, c - 87)

def compile_tok(ctx, t, pfx, sym, V):
    def var(n): return z3.BitVec(n, 8) if sym else V.get(n, 0)
    k = t[0]
    if k == 'op': return [C16.NAMES[t[1]]]
    if k == 'lit': return t[2]
    if k in ('hex0x', 'hex'):
        cs = [var('%sh%d' % (pfx, i)) for i in range(2 * t[1])]
        data = [z3.simplify((hexv(cs[2 * i]) << 4) | hexv(cs[2 * i + 1])) for i in range(t[1])]
        return minimal_push(ctx, data)
    if k == 'hexL':
        cs = [var('%sh%d' % (pfx, i)) for i in range(2)]
        return minimal_push(ctx, [0xab] * (t[1] - 1) + [z3.simplify((hexv(cs[0]) << 4) | hexv(cs[1]))])
    if k == 'dec':
        cs = [var('%sd%d' % (pfx, i)) for i in range(t[1])]
        v = z3.BitVecVal(0, 64)
        for c in cs: v = v * 10 + z3.ZeroExt(56, R.B(c) - 48)
        v = z3.simplify(-v if t[2] else v)
        return push_number(ctx, v)
    if k == 'br':
        body = []
        for i, u in enumerate(t[1]): body += compile_tok(ctx, u, pfx + 'b%d' % i, sym, V)
        return minimal_push(ctx, body)
    raise Exception(k)

def tname(t):
    k = t[0]
    if k in ('op', 'lit'): return t[1]
    if k in ('hex0x', 'hex'): return ('0x' if k == 'hex0x' else '') + '??' * t[1]
    if k == 'hexL': return '0x(%d bytes)' % t[1]
    if k == 'dec': return ('-' if t[2] else '') + '#' * t[1]
    return '[' + ' '.join(tname(u) for u in t[1]) + ']'

def obligations(tier, seed):
    obs = []
    for L in (0, 1, 2, 3, 4, 5, 6, 75, 76, 255, 256, 520): obs.append(dict(name='emit/data/L%d' % L, kind='emit_data', L=L))
    obs.append(dict(name='emit/int64', kind='emit_int'))
    def add(toks): obs.append(dict(name='tok/' + ' '.join(tname(t) for t in toks), kind='tokens', toks=toks))
    for n in (0, 1, 2, 3, 4, 5, 8): add([('hex0x', n)])
    for n in (1, 2, 4, 5): add([('hex', n)])
    for nd in (1, 2, 3, 4):
        for sg in (0, 1): add([('dec', nd, sg)])
    for lit, want in (('0', [0]), ('16', [0x60]), ('17', [1, 17]), ('-1', [0x4f]), ('127', [1, 127]), ('128', [2, 128, 0]), ('255', [2, 255, 0]), ('256', [2, 0, 1]), ('32767', [2, 255, 127]), ('32768', [3, 0, 128, 0]),
                      ('2147483647', [4, 255, 255, 255, 127]), ('2147483648', [5, 0, 0, 0, 128, 0]), ('-2147483648', [5, 0, 0, 0, 128, 128]), ('9223372036854775807', [8] + [255] * 7 + [127]),
                      ('515293', [3, 0xdd, 0xdc, 0x07]), ('1234', [2, 0xd2, 0x04]),
                      ('-9223372036854775807', [8] + [255] * 7 + [255]), ('-1000000000000000000', [8] + list((10**18).to_bytes(8, 'little'))[:7] + [0x0d | 0x80]), ('-999999999999999999', [8] + list((10**18 - 1).to_bytes(8, 'little'))[:7] + [0x0d | 0x80]),
                      ('-9223372036854775808', [9] + [0] * 7 + [0x80, 0x80]), ('1000000000000000000', [8] + list((10**18).to_bytes(8, 'little')))):
        add([('lit', lit, want)])
    names = sorted(C16.NAMES)
    for n in names:
        if n.lstrip('-').isdigit(): continue
        add([('op', n)])
    add([('op', 'OP_DUP'), ('op', 'OP_HASH160'), ('hex', 20), ('op', 'OP_EQUALVERIFY'), ('op', 'OP_CHECKSIG')])
    add([('dec', 1, 0), ('dec', 1, 0), ('op', 'OP_ADD')]); add([('hex0x', 1), ('op', 'ADD'), ('dec', 2, 0)])
    add([('br', [('op', 'OP_1')])]); add([('br', [('hex0x', 1)])]); add([('br', [('hex0x', 2), ('op', 'OP_ADD')])]); add([('br', [('dec', 2, 0), ('op', 'OP_EQUAL')])])
    add([('br', [('br', [('hex0x', 1)])])]); add([('br', [('br', [('br', [('dec', 1, 0)])]), ('op', 'OP_DROP')])]); add([('br', [('hex', 20)]), ('op', 'OP_EQUAL')])
    add([('br', [('hex', 1)]), ('br', [('dec', 1, 1)])])
    # empty sub-scripts (a push of the empty script = OP_0), alone, nested and between other tokens (seed C07-4)
    add([('br', [])]); add([('br', [('br', [])])]); add([('br', [('op', 'OP_1'), ('br', []), ('op', 'OP_2')])]); add([('br', []), ('op', 'OP_DROP')]); add([('br', [('br', [('br', [])])])])
    # long literals and long sub-scripts through the whole pipeline: every push form (direct 75, PUSHDATA1 76..255, PUSHDATA2 256..)
    for n in (75, 76, 255, 256, 520, 521): add([('hexL', n)]); add([('br', [('hexL', n), ('op', 'OP_DROP')])])
    add([('br', [('br', [('hexL', 74)])])]); add([('br', [('br', [('hexL', 253)]), ('op', 'OP_SIZE')])])
    return obs

def prep(ob, V=None):
    sym = V is None
    def var(n, bits=8): return z3.BitVec(n, bits) if sym else V.get(n, 0)
    k = ob['kind']
    def crash(f): return ('crash', f.result[1] if f.result else 'none', f.result[2] if f.result and len(f.result) > 2 else '')
    if k == 'emit_data':
        data = [var('b%d' % i) for i in range(ob['L'])]
        def io(E, f, ret, outs):
            if ret is None: return crash(f)
            n = hlib.uniq(E, f, ret) if f is not None else ret
            return dict(script=outs[0](n))
        return 'w_emit_data', [('in', data), ('u32', ob['L']), ('out', ob['L'] + 16)], io, lambda ctx: dict(script=minimal_push(ctx, data)), [], dict(data=data)
    if k == 'emit_int':
        v = var('v', 64)
        def io(E, f, ret, outs):
            if ret is None: return crash(f)
            n = hlib.uniq(E, f, ret) if f is not None else ret
            return dict(script=outs[0](n))
        return 'w_emit_int', [('i64', v), ('out', 24)], io, lambda ctx: dict(script=push_number(ctx, R.B(v, 64))), [], dict(v=v)
    assume = []; req = []; syms = []
    toks = ob['toks']
    req += list(len(toks).to_bytes(4, 'little'))
    for i, t in enumerate(toks):
        cs, s = tok_chars(t, 't%d' % i, sym, V or {}, assume)
        req += list(len(cs).to_bytes(4, 'little')) + cs
        if s: syms += s
    def io(E, f, ret, outs):
        if ret is None: return crash(f)
        n = hlib.uniq(E, f, ret) if f is not None else ret
        return dict(hex=outs[0](n))
    def ref(ctx):
        sc = []
        for i, t in enumerate(toks): sc += compile_tok(ctx, t, 't%d' % i, sym, V or {})
        return dict(hex=to_hex(sc))
    return 'w_btcc', [('in', req), ('out', 2400)], io, ref, assume, dict(syms=syms)

def run(E, ob):
    fn, spec, io, ref, assume, inputs = prep(ob)
    def key(a, b):
        if ob['kind'] == 'tokens' and len(ob['toks']) == 1 and ob['toks'][0][0] in ('hex0x', 'hex') and ob['toks'][0][1] < 5: return 'C07:short-hex-literal-reread-as-number'
        if ob['kind'] == 'emit_data' and ob['L'] < 5: return 'C07:short-hex-literal-reread-as-number'
        return 'C07:' + ob['name']
    return hlib.flat_check(E, ob['name'], fn, spec, io, ref, assume, inputs, key)

def values(ob, cex):
    V = {}
    if ob['kind'] == 'emit_data':
        for i, b in enumerate(cex['data']): V['b%d' % i] = b
    elif ob['kind'] == 'emit_int': V['v'] = cex['v']
    else:
        # symbolic characters in order of appearance
        names = []
        def walk(t, pfx):
            if t[0] in ('hex0x', 'hex'): names.extend('%sh%d' % (pfx, i) for i in range(2 * t[1]))
            elif t[0] == 'hexL': names.extend('%sh%d' % (pfx, i) for i in range(2))
            elif t[0] == 'dec': names.extend('%sd%d' % (pfx, i) for i in range(t[1]))
            elif t[0] == 'br':
                for i, u in enumerate(t[1]): walk(u, pfx + 'b%d' % i)
        for i, t in enumerate(ob['toks']): walk(t, 't%d' % i)
        for n, v in zip(names, cex.get('syms', [])): V[n] = v
    return V

def native_and_ref(lib, ob, V):
    fn, spec, io, ref, assume, inputs = prep(ob, V)
    ret, outs = hlib.spec_native(lib, fn, spec)
    nat = io(None, None, ret, outs)
    cases, _ = refexec.explore(ref)
    s = z3.Solver(); s.check()
    return nat, sesslib.concretize(s.model(), cases[0][1]), spec

def replay(lib, ob, cex):
    nat, ro, spec = native_and_ref(lib, ob, values(ob, cex))
    txt = ''
    if ob['kind'] == 'tokens':
        txt = 'btcc output %s, expected %s' % (bytes(nat['hex']).decode(), bytes(ro['hex']).decode())
    return refexec.differs(nat, ro) is not False, txt or 'native: %s | reference: %s' % (sesslib.short(nat), sesslib.short(ro))

def validate(E, lib):
    n = 0
    import random
    rnd = random.Random(3)
    for ob in obligations('quick', 0)[::3]:
        V = {}
        for i in range(600): V['b%d' % i] = rnd.randrange(256)
        V['v'] = rnd.choice([0, 1, -1 & (2**64 - 1), 17, 1000, 2**40])
        def fill(t, pfx):
            if t[0] in ('hex0x', 'hex'):
                for i in range(2 * t[1]): V['%sh%d' % (pfx, i)] = ord(rnd.choice('abcdef' if (t[0] == 'hex' and i == 0) else HEXL))
            elif t[0] == 'dec':
                for i in range(t[1]): V['%sd%d' % (pfx, i)] = ord(rnd.choice('123456789' if i == 0 else '0123456789'))
            elif t[0] == 'br':
                for i, u in enumerate(t[1]): fill(u, pfx + 'b%d' % i)
        for i, t in enumerate(ob.get('toks', [])): fill(t, 't%d' % i)
        fn, spec, io, ref, assume, inputs = prep(ob, V)
        ret, outs = hlib.spec_native(lib, fn, spec); nat = io(None, None, ret, outs)
        runs = hlib.spec_engine(E, fn, spec)
        if len(runs) != 1 or runs[0][1] is None: raise EncoderMismatch('engine concrete run failed on %s: %r' % (ob['name'], [r[0].result for r in runs]))
        eng = io(E, runs[0][0], runs[0][1], runs[0][2])
        if refexec.differs(eng, nat) is not False: raise EncoderMismatch('engine %s != native %s on %s' % (eng, nat, ob['name']))
        n += 1
    return n
