"""C18 - script-number encoding is a bijection on minimal encodings (leaf kernels: all byte strings of each length, all int64)."""
import z3, ctypes
import stubs, hlib, refscript as R, refexec, sesslib
from irsym import is_sym, bv, simp
from core import mkres, EncoderMismatch
import build as _b

ID = 'C18'
TITLE = 'CScriptNum decode (all byte strings of length 0..6, nMaxNumSize 4/5, minimality on/off), serialize (all int64) and the Value int/hex/data conversions against the arithmetic definition of script numbers'
TUS = ['script', 'value', 'strenc', 'dbgscript', 'sha256', 'ripemd160', 'hash', 'uint256', 'base58', 'bech32', 'pubkey']
SHIMS = ['num']
NATIVE_TUS = _b.ALL_NATIVE
PARTS = ['C18lit']
FUNCTIONS = ['CScriptNum::CScriptNum(vch, fRequireMinimal, nMaxNumSize)', 'CScriptNum::set_vch', 'CScriptNum::serialize', 'CScriptNum::getvch', 'CScriptNum::getint', 'Value(int64_t)::hex_str', 'Value::int_value', 'Value::data_value', 'HexStr']
ASSUMPTIONS = ['allocation never fails', 'verdicts are for the clang-14 -O1 IR of the working tree']
OUTSIDE = ['byte strings longer than 6 bytes (rejected by length alone: same code path as length 5/6)', 'decimal literal parsing (atoll) is covered by C07']
BOUNDS = 'decode: every byte string of length 0..6 (all 2^(8L) contents symbolic) x fRequireMinimal symbolic x nMaxNumSize in {4,5}; encode: every int64 (symbolic 64-bit); Value conversions: every int64 / every byte string of length 0..5'

def setup(E):
    stubs.install_all(E)
    E.stubs.pop('_Z6HexStrB5cxx114SpanIKhE', None)        # hex formatting is the subject here: run the real HexStr

def obligations(tier, seed):
    obs = []
    for L in range(0, 7):
        for mx in (4, 5): obs.append(dict(name='decode/L%d/max%d' % (L, mx), kind='decode', L=L, mx=mx))
    for k in ('encode', 'getvch', 'int_hex', 'int_data'): obs.append(dict(name=k + '/int64', kind=k))
    for L in range(0, 6): obs.append(dict(name='data_int/L%d' % L, kind='data_int', L=L))
    return obs

def prep(ob, V=None):
    """returns (fn, spec, impl_outcome, ref_fn, assume, inputs)"""
    sym = V is None
    def var(n, bits): return z3.BitVec(n, bits) if sym else V[n]
    k = ob['kind']
    if k == 'decode':
        data = [var('b%d' % i, 8) for i in range(ob['L'])]; rm = var('reqmin', 32)
        spec = [('in', data), ('u32', ob['L']), ('u32', rm), ('u32', ob['mx']), ('out', 8), ('out', 4)]
        def io(E, f, ret, outs):
            if ret is None: return ('crash', f.result[1] if f.result else 'none', '')
            if ret != 0: return dict(ok=0)
            return dict(ok=1, v=hlib.le(outs[0](8)), i=hlib.le(outs[1](4)))
        def ref(ctx):
            try: v = R.num_decode(ctx, [R.B(x) for x in data], R.B(rm, 32) != 0, ob['mx'])
            except R.Fail: return dict(ok=0)
            return dict(ok=1, v=v, i=z3.simplify(z3.Extract(31, 0, R.getint(v))))
        return 'w_num_decode', spec, io, ref, [], dict(data=data, reqmin=rm)
    if k in ('encode', 'getvch', 'int_hex', 'int_data'):
        v = var('v', 64)
        fn = {'encode': 'w_num_encode', 'getvch': 'w_num_getvch', 'int_hex': 'w_value_int_hex', 'int_data': 'w_value_int_data'}[k]
        spec = [('i64', v), ('out', 24)]
        def io(E, f, ret, outs):
            if ret is None: return ('crash', f.result[1] if f.result else 'none', '')
            n = hlib.uniq(E, f, ret) if f is not None else ret
            return dict(n=n, bytes=outs[0](n))
        def ref(ctx):
            bs = R.num_encode(ctx, R.B(v, 64))
            if k == 'int_hex':
                out = []
                for b in bs:
                    for nib in (z3.LShR(b, 4), b & 0xf):
                        out.append(z3.simplify(z3.If(z3.ULT(nib, 10), nib + 0x30, nib + 0x57)))
                bs = out
            return dict(n=len(bs), bytes=bs)
        return fn, spec, io, ref, [], dict(v=v)
    if k == 'data_int':
        data = [var('b%d' % i, 8) for i in range(ob['L'])]
        spec = [('in', data), ('u32', ob['L']), ('out', 8)]
        def io(E, f, ret, outs):
            if ret is None: return ('crash', f.result[1] if f.result else 'none', '')
            if ret != 0: return dict(ok=0)
            return dict(ok=1, v=hlib.le(outs[0](8)))
        def ref(ctx):
            if ob['L'] > 4: raise refexec.RefAbort('more than 4 bytes: not prescribed for Value::int_value (only crash-freedom)')
            return dict(ok=1, v=R.num_decode(ctx, [R.B(x) for x in data], z3.BoolVal(False), 4))
        return 'w_value_data_int', spec, io, ref, [], dict(data=data)
    raise Exception(k)

def run(E, ob):
    fn, spec, io, ref, assume, inputs = prep(ob)
    return hlib.flat_check(E, ob['name'], fn, spec, io, ref, assume, inputs, lambda a, b: 'C18:' + ob['kind'])

def values_of(ob, cex):
    V = {}
    for i, b in enumerate(cex.get('data', [])): V['b%d' % i] = b
    V['reqmin'] = cex.get('reqmin', 0); V['v'] = cex.get('v', 0)
    return V

def native_and_ref(lib, ob, V):
    fn, spec, io, ref, assume, inputs = prep(ob, V)
    ret, outs = hlib.spec_native(lib, fn, spec)
    nat = io(None, None, ret, outs)
    cases, _ = refexec.explore(ref)
    assert len(cases) == 1
    return nat, sesslib.concretize(_empty_model(), cases[0][1])

def _empty_model():
    s = z3.Solver(); s.check(); return s.model()

def replay(lib, ob, cex):
    nat, ro = native_and_ref(lib, ob, values_of(ob, cex))
    d = refexec.differs(nat, ro)
    return (d is not False and not (isinstance(ro, (list, tuple)) and ro and ro[0] == 'ref_abort')), 'native: %s | reference: %s' % (sesslib.short(nat), sesslib.short(ro))

def validate(E, lib):
    import random
    rnd = random.Random(7); n = 0
    vals = [0, 1, -1, 127, 128, -128, 255, 256, 32767, 32768, -32768, 2**31 - 1, 2**31, -2**31, 2**63 - 1, -2**63 + 1, -2**63, 515293] + [rnd.getrandbits(64) - 2**63 for _ in range(10)]
    strs = [[], [0], [0x80], [1], [0x81], [0, 0x80], [0xff, 0x7f], [0xff, 0xff], [1, 2, 3, 4], [1, 2, 3, 0x84], [0, 0, 0, 0, 0x80], [1, 2, 3, 4, 5, 6]] + [[rnd.randrange(256) for _ in range(rnd.randrange(1, 6))] for _ in range(10)]
    for ob in obligations('quick', 0):
        cands = []
        if ob['kind'] in ('decode', 'data_int'):
            for s in strs:
                if len(s) == ob['L']:
                    for rm in (0, 1): cands.append(dict({'b%d' % i: b for i, b in enumerate(s)}, reqmin=rm, v=0))
        else:
            for v in vals: cands.append(dict(v=v & (2**64 - 1), reqmin=0))
        for V in cands:
            fn, spec, io, ref, assume, inputs = prep(ob, V)
            ret, outs = hlib.spec_native(lib, fn, spec); nat = io(None, None, ret, outs)
            runs = hlib.spec_engine(E, fn, spec)
            if len(runs) != 1 or runs[0][1] is None: raise EncoderMismatch('engine concrete run failed on %s %s: %r' % (ob['name'], V, [r[0].result for r in runs]))
            eng = io(E, runs[0][0], runs[0][1], runs[0][2])
            if refexec.differs(eng, nat) is not False: raise EncoderMismatch('engine %s != native %s on %s %s' % (eng, nat, ob['name'], V))
            n += 1
    return n
