"""C03 (part 2) - running a legacy / P2SH spend session to the end equals consensus VerifyScript: every script (scriptSig, scriptPubKey, redeem script)
is evaluated on its own (balanced conditionals, fresh alt stack, fresh operation count), BIP16 push-only rule, SIGPUSHONLY flag; compared on
(finished without error, final stack)."""
import z3, hashlib
import C01 as base
import stubs, sesslib, hlib, hashref, refscript as R, refexec
from irsym import is_sym
from core import mkres

ID = 'C03'
TUS = base.TUS; SHIMS = base.SHIMS; NATIVE_TUS = base.NATIVE_TUS
def setup(E): base.setup(E)

OPN = R.OP
def P(*bs): return ('push', list(bs))
def compile_ops(ops, V, tag):
    """ops: opcode names, ('push', bytes) concrete pushes, ('sym', n) symbolic n-byte pushes"""
    out = []; syms = []
    for i, o in enumerate(ops):
        if isinstance(o, str): out.append(OPN[o])
        elif o[0] == 'push': out += [len(o[1])] + list(o[1])
        elif o[0] == 'sym':
            cs = [z3.BitVec('%s%d_%d' % (tag, i, j), 8) if V is None else V.get('%s%d_%d' % (tag, i, j), 0) for j in range(o[1])]
            out += [o[1]] + cs; syms += cs
    return out, syms

def h160(b): return list(hashlib.new('ripemd160', hashlib.sha256(bytes(b)).digest()).digest())
def p2sh(redeem): return [0xa9, 0x14] + h160(redeem) + [0x87]
def scr(*names): return [OPN[n] for n in names]

CASES = [
    # (name, scriptSig ops, scriptPubKey bytes or ops)
    ('if-open-across-scripts', ['OP_1', 'OP_IF'], ['OP_ENDIF', 'OP_1']),
    ('if-open-else-across-scripts', ['OP_0', 'OP_IF'], ['OP_ELSE', 'OP_1', 'OP_ENDIF']),
    ('if-closed-in-scriptsig', ['OP_1', 'OP_IF', 'OP_ENDIF'], ['OP_1']),
    ('sym-if-open', [('sym', 1), 'OP_IF'], ['OP_ENDIF', 'OP_1']),
    ('altstack-across-scripts', ['OP_1', 'OP_TOALTSTACK'], ['OP_FROMALTSTACK']),
    ('altstack-left-behind', ['OP_1', 'OP_TOALTSTACK', 'OP_2'], ['OP_DUP']),
    ('plain-push-dup', [('sym', 1)], ['OP_DUP', 'OP_DROP']),
    ('plain-two-pushes-equal', [('sym', 2), ('sym', 2)], ['OP_EQUAL']),
    ('endif-only-in-spk', [('sym', 1)], ['OP_ENDIF']),
    ('p2sh/push-only', [('push', scr('OP_1'))], p2sh(scr('OP_1'))),
    ('p2sh/push-only-two-items', [('sym', 1), ('push', scr('OP_DROP', 'OP_1'))], p2sh(scr('OP_DROP', 'OP_1'))),
    ('p2sh/nop-before-push', ['OP_NOP', ('push', scr('OP_1'))], p2sh(scr('OP_1'))),
    ('p2sh/dup-drop-after-push', [('push', scr('OP_1')), 'OP_DUP', 'OP_DROP'], p2sh(scr('OP_1'))),
    ('p2sh/redeem-leaves-if-open', [('push', scr('OP_1', 'OP_IF'))], p2sh(scr('OP_1', 'OP_IF'))),
    ('p2sh/redeem-uses-altstack', ['OP_1', ('push', scr('OP_FROMALTSTACK'))], p2sh(scr('OP_FROMALTSTACK'))),
    ('p2sh/wrong-hash', [('sym', 1)], p2sh(scr('OP_1'))),
    ('p2sh/redeem-false', [('push', scr('OP_0'))], p2sh(scr('OP_0'))),
    ('p2sh/empty-scriptsig', [], p2sh(scr('OP_1'))),
]

def obligations(tier, seed):
    return [dict(name='session-end/' + n, kind='end', case=i) for i, (n, _, _) in enumerate(CASES)]

def mk(ob, V=None):
    n, ss_ops, spk = CASES[ob['case']]
    ss, syms = compile_ops(ss_ops, V, 's')
    if spk and isinstance(spk[0], str): spk = scr(*spk)
    flags = z3.BitVec('flags', 32) if V is None else V.get('flags', 0)
    pre = dict(successor=list(spk), p2sh=0)
    req = sesslib.sess_request(3, flags, R.BASE, [], ss, 0, 0, (0, 0, 0), pre)
    return req, ss, list(spk), flags, syms

def push_only(script):
    pc = 0
    while pc < len(script):
        d = R.decode_op(script, pc)
        if d is None: return False
        o, payload, pc = d
        if o > 0x60: return False
    return True

def ref_verify(ctx, ss, spk, flags):
    """VerifyScript for a non-witness input; outcome = (finished without error, final stack) - the final truth/clean-stack test is read off the final stack"""
    def ev(script, stack):
        S = R.RS(stack=[list(x) for x in stack], alt=[], vf_size=0, vf_ff=None, nop=z3.BitVecVal(0, 32), flags=flags, sigversion=R.BASE, script=list(script), pc=0)
        if len(script) > R.MAX_SCRIPT: return None
        while S.pc < len(S.script):
            r = R.ref_step(ctx, S)
            if not r['ok']: return None
            S.stack = r['stack']; S.alt = r['alt']; S.vf_size = r['vf'][0]; S.vf_ff = None if r['vf'][1] == r['vf'][0] else r['vf'][1]; S.nop = r['nop']; S.pc = r['pc']
        if S.vf_size: return None                       # unbalanced conditional at the end of THIS script
        return S.stack
    if ctx.branch(R.flag(flags, 'SIGPUSHONLY')) and not push_only(ss): return dict(ok=0)
    st1 = ev(ss, [])
    if st1 is None: return dict(ok=0)
    st2 = ev(spk, st1)
    if st2 is None: return dict(ok=0)
    is_p2sh = len(spk) == 23 and spk[0] == 0xa9 and spk[1] == 20 and spk[22] == 0x87
    if is_p2sh and ctx.branch(R.flag(flags, 'P2SH')):
        if not st2 or not ctx.branch(R.cast_to_bool(st2[-1])): return dict(ok=0)          # EVAL_FALSE after the scriptPubKey
        if not push_only(ss): return dict(ok=0)                                           # BIP16
        stack = [list(x) for x in st1]
        if not stack: return dict(ok=0)
        redeem = stack.pop()
        if any(is_sym(b) for b in redeem): raise refexec.RefAbort('symbolic redeem script')
        st3 = ev(redeem, stack)
        if st3 is None: return dict(ok=0)
        return dict(ok=1, stack=st3)
    return dict(ok=1, stack=st2)

def run(E, ob):
    req, ss, spk, flags, syms = mk(ob)
    out, fin = sesslib.engine_call(E, req, assume=[])
    def io(f):
        if f.result is None or f.result[0] != 'ret': return ('crash', f.result[1] if f.result else 'none', f.result[2] if f.result and len(f.result) > 2 else '')
        rep = sesslib.engine_reply(E, f, out, 3)
        if not is_sym(rep['ret']) and not rep['ret']: return dict(ok=0)
        return dict(ok=rep['ret'], stack=rep['post']['stack'])
    return sesslib.diff_paths(E, ob['name'], fin, io, lambda ctx: ref_verify(ctx, ss, spk, flags), [], dict(flags=flags, syms=syms), lambda a, b: 'C03:session-end:' + CASES[ob['case']][0])

def replay(lib, ob, cex):
    V = dict(flags=cex.get('flags', 0)); it = iter(cex.get('syms', []))
    n, ss_ops, _ = CASES[ob['case']]
    for i, o in enumerate(ss_ops):
        if not isinstance(o, str) and o[0] == 'sym':
            for j in range(o[1]): V['s%d_%d' % (i, j)] = next(it, 0)
    req, ss, spk, flags, _ = mk(ob, V)
    rep = sesslib.native_call(lib, req, 3)
    cases, _ = refexec.explore(lambda ctx: ref_verify(ctx, ss, spk, z3.BitVecVal(flags, 32)))
    s = z3.Solver(); s.check(); ro = sesslib.concretize(s.model(), cases[0][1])
    nat = dict(ok=0) if not rep['ret'] else dict(ok=1, stack=rep['post']['stack'])
    return refexec.differs(nat, ro) is not False, 'native session (scriptSig %s, scriptPubKey %s, flags %#x): %s | VerifyScript: %s' % (bytes(ss).hex(), bytes(spk).hex(), flags, sesslib.short(nat), sesslib.short(ro))

def validate(E, lib): return 0
