"""C09 (part 2) - the flag word --modify-flags produced is the flag word the session runs under (Instance::setup_environment hands it to the interpreter unchanged)."""
import C03
from core import mkres

ID = 'C09'
TUS = C03.TUS; SHIMS = C03.SHIMS; NATIVE_TUS = C03.NATIVE_TUS
def setup(E): C03.setup(E)
def obligations(tier, seed):
    return [dict(name='session-flags/%s' % k, kind='setup', t=k, idx=0, symflags=1) for k in ('legacy-bare', 'legacy-p2pkh', 'p2wsh', 'p2tr-key')]
def run(E, ob):
    r = C03.run(E, ob)
    if r.get('key'): r['key'] = r['key'].replace('C03:', 'C09:session-flags:')
    return r
def replay(lib, ob, cex): return C03.replay(lib, ob, cex)
def validate(E, lib): return 0
