"""C06 - tap: the printed address and the emitted control blocks verify under BIP341, whatever leaf is spent (real main() of tap run symbolically)."""
import z3, os, subprocess
import stubs, procenv, libc, hlib, hashref, refscript as R, refexec, sesslib, build, runtool
from irsym import is_sym, bv, simp, Unsupported
from core import mkres, EncoderMismatch
import C07, C14

ID = 'C06'
TITLE = "tap's real main() run in the engine (scripted argv; internal key and script payloads symbolic, so leaf hashes sort either way): the emitted control block folded by the BIP341 rule must reproduce the Merkle root whose TapTweak was passed to the tweak, the parity bit must be the tweaked key's, and the printed address must be bech32m(hrp, 1, output key) independent of the spending index"
TUS = ['functions', 'instance', 'value', 'interp', 'script', 'dbginterp', 'dbgscript', 'strenc', 'pubkey', 'hash', 'sha256', 'ripemd160', 'sha1', 'uint256', 'tx', 'script_error', 'base58', 'bech32', 'arith', 'merkle']
SHIMS = ['maintap']
NATIVE = True
NATIVE_TUS = build.ALL_NATIVE + ['instance', 'functions', 'kerl']
FUNCTIONS = ['main() of tap.cpp (argument handling, script parsing, TapLeaf/TapBranch construction, pairing loop and leftover handling, merge loop, TapBranch::Prove, TapTweak, parity into the control byte, bech32m address)',
             'TapLeaf::TapLeaf', 'TapBranch::TapBranch', 'TapBranch::Prove', 'Value::do_bech32menc', 'bech32::Encode', 'ConvertBits<8,5>', 'HashWriter / TaggedHash']
ASSUMPTIONS = ['secp256k1_xonly_pubkey_parse is an uninterpreted predicate; secp256k1_xonly_pubkey_tweak_add records the tweak it is given and returns a fixed opaque point (each parity is a separate obligation); secp256k1_ec_pubkey_serialize serialises that point; ECC_Start/ECC_Stop stubbed', 'leaf script payloads become symbolic at the entry of TapLeaf::TapLeaf (argv itself is concrete), so leaf and branch hashes are unconstrained and every sort order at every branch is explored',
               'SHA-256 compression uninterpreted on symbolic input', 'process environment modelled (getopt_long, ttys, printf capture); stdout and stderr are terminals so that the control object is logged',
               'verification of the commitment by the debugger itself is decided by C05 on arbitrary control blocks, which includes the ones emitted here']
OUTSIDE = ['n > 4 leaves in quick / n > 5 in thorough (measured: n = 5 returns unknown on some index, n = 6 exceeds 240 s - 2^n sort orders over nested hash terms); (tree code is uniform in n, depth grows)', 'the --tx/--txin/--sig path (witness insertion and reported sighash) - see the evidence note', 'the --privkey signing path (ENABLE_DANGEROUS is off in this build)', 'pseudo-terminal handling']
BOUNDS = {'quick': 'n = 1..4 leaf scripts x every spending index (and no index); internal key concrete (it only feeds uninterpreted functions and the hash); each script a 2-byte symbolic push; both parities of the output key', 'thorough': 'n = 1..5'}

TWEAKADD = z3.Function('xonly_tweak_add', z3.BitVecSort(256), z3.BitVecSort(256), z3.BitVecSort(264))       # (internal key, tweak) -> parity byte || x

def setup(E):
    stubs.install_all(E)
    procenv.install(E, tty=(1, 1, 1))
    procenv.install_tinyformat(E)
    def hexstr(E, st, fr, I, A):
        # symbolic bytes are logged through a placeholder (<Hn>) that the check maps back to the byte terms; concrete bytes are really formatted
        sret, p, n = A
        bs = stubs.rd(E, st, p, n) if n else []
        E.store(st, sret, 8, sret + 16); E.store(st, sret + 8, 8, 0); E.store(st, sret + 16, 1, 0)
        if any(is_sym(b) for b in bs):
            hx = list(st.aux.get('hexes', [])); hx.append(bs); st.aux['hexes'] = hx
            E.s_set(E, st, sret, list(b'<H%d>' % (len(hx) - 1)))
        else: E.s_set(E, st, sret, list(bytes(bs).hex().encode()))
        return None
    E.stubs['_Z6HexStrB5cxx114SpanIKhE'] = hexstr
    for n in ('_ZN15ECCVerifyHandleC1Ev', '_ZN15ECCVerifyHandleC2Ev', '_ZN15ECCVerifyHandleD1Ev', '_ZN15ECCVerifyHandleD2Ev', '_Z9ECC_Startv', '_Z8ECC_Stopv'): E.stubs[n] = lambda E, st, fr, I, A: None
    # log lines carry the control object: capture them on stderr
    def logf(E, st, fr, I, A):
        cs = E.fmt(E, st, A[0], A, 1); E.out_append(st, 2, cs); return 0
    E.stubs['_Z15btc_logf_stderrPKcz'] = logf
    def tweak_add(E, st, fr, I, A):
        ctx, out, xonly, tweak = A
        st.aux['tweak'] = stubs.rd(E, st, tweak, 32); st.aux['ikey'] = stubs.rd(E, st, xonly, 32)
        # the tweaked point is opaque to this check: a fixed byte pattern stands for it (parity chosen per obligation), so that the
        # address path stays concrete; what is decided is that the tweak handed in is TapTweak(P || root of the emitted proof)
        bs = [st.aux.get('parity_in', 2)] + [(37 * i + 11) & 0xff for i in range(32)]
        stubs.wr(E, st, out, bs + [0] * 31)
        return 1
    def tapleaf_ctor(E, st, fr, I, A):
        this, index, script = A
        # make the leaf script's payload symbolic at the moment it is hashed (argv stays concrete, so parsing costs nothing)
        if E.load(st, script, 1) == 2 and not st.aux.get('leaf_done_%d' % index) and (st.aux.get('symleaves') is None or index in st.aux['symleaves']):
            for j in range(2): E.store(st, script + 1 + j, 1, z3.BitVec('s%d_%d' % (index, j), 8))
            st.aux['leaf_done_%d' % index] = True
        return stubs.NOT_HANDLED
    E.stubs['_ZN7TapLeafC2EmRK7CScript'] = tapleaf_ctor
    E.stubs['secp256k1_xonly_pubkey_tweak_add'] = tweak_add
    def serialize(E, st, fr, I, A):
        ctx, out, lenp, pk, flags = A
        bs = stubs.rd(E, st, pk, 33)
        par = simp(z3.If((bv(bs[0], 8) & 1) == 1, z3.BitVecVal(3, 8), z3.BitVecVal(2, 8)))
        stubs.wr(E, st, out, [par] + bs[1:]); E.store(st, lenp, 8, 33)
        st.aux['outkey'] = bs[1:]; st.aux['parity'] = par
        return 1
    E.stubs['secp256k1_ec_pubkey_serialize'] = serialize

def obligations(tier, seed):
    obs = []
    for n in range(1, 5 if tier == 'quick' else 6):
        obs.append(dict(name='tap/n%d/noindex' % n, kind='tap', n=n, idx=None, cost=2 ** n))
        for i in range(n):
            for par in (2, 3): obs.append(dict(name='tap/n%d/index%d/parity%d' % (n, i, par), kind='tap', n=n, idx=i, parity=par, cost=2 ** n))
    # larger trees: only the spent leaf (and its neighbour) symbolic, the other leaves concrete - the sort order is explored along the proof path
    for n in (list(range(5, 9)) + [10, 11, 13] if tier == 'quick' else list(range(5, 25)) + [32, 33]):
        for i in (range(n) if (tier != 'quick' or n <= 8) else sorted({0, n // 2, n - 2, n - 1})):
            obs.append(dict(name='tap/n%d/index%d/spent-leaf-symbolic' % (n, i), kind='tap', n=n, idx=i, parity=2 + (i & 1), symleaves=[i], cost=n))
    return obs

def argv_for(ob, V=None):
    sym = V is None
    def var(nm): return z3.BitVec(nm, 8) if sym else V.get(nm, 0)
    key = list(bytes.fromhex('f30544d6009c8d8d94f5d030b2e844b1a3ca036255161c479db1cca5b374dd1c'))      # concrete internal key: 64 symbolic hex characters cost ~60 s of feasibility queries in TryHex alone; the key only feeds uninterpreted functions
    scripts = [[var('s%d_%d' % (i, j)) for j in range(2)] for i in range(ob['n'])]
    args = [list(b'tap'), C07.to_hex(key), list(str(ob['n']).encode())]
    for i, s in enumerate(scripts): args.append(list(b'[0x') + (list(b'a%db%d' % (i % 10, i % 10)) if sym else C07.to_hex(s)) + list(b']'))
    if ob['idx'] is not None: args.append(list(str(ob['idx']).encode()))
    norm = lambda a: [z3.simplify(x).as_long() if (is_sym(x) and z3.is_bv_value(z3.simplify(x))) else x for x in a]
    return [norm(a) for a in args], key, scripts

def between(chars, start, end=b'\n'):
    """the characters following the literal `start` up to `end` in a captured (partly symbolic) text"""
    n = len(start)
    for i in range(len(chars) - n + 1):
        if all((not is_sym(chars[i + j])) and chars[i + j] == start[j] for j in range(n)):
            out = []
            for c in chars[i + n:]:
                if not is_sym(c) and c in end: return out
                out.append(c)
            return out
    return None

def unhex(chars):
    f = lambda c: z3.If(z3.ULE(R.B(c), 57), R.B(c) - 48, R.B(c) - 87)
    return [z3.simplify((f(chars[2 * i]) << 4) | f(chars[2 * i + 1])) for i in range(len(chars) // 2)]

def lex_lt(a, b):
    """lexicographic a < b over byte lists, built exactly like the engine's memcmp model (so that the implementation's own comparison
    terms and the reference's simplify to the same thing instead of leaving a 256-bit ULT-vs-bytewise equivalence to the solver)"""
    r = z3.BitVecVal(0, 32)
    for x, y in reversed(list(zip(a, b))):
        X = R.B(x); Y = R.B(y)
        r = z3.If(X == Y, r, z3.If(z3.UGT(X, Y), z3.BitVecVal(1, 32), z3.BitVecVal(0xffffffff, 32)))
    return z3.simplify(r == 0xffffffff)

def convertbits_8_to_5(bs):
    """BIP173 regrouping of bytes into 5-bit symbols with zero padding"""
    bits = z3.Concat(*[R.B(b) for b in bs]); n = 8 * len(bs)
    pad = (5 - n % 5) % 5
    if pad: bits = z3.Concat(bits, z3.BitVecVal(0, pad))
    tot = n + pad
    return [z3.simplify(z3.Extract(tot - 1 - 5 * i, tot - 5 - 5 * i, bits)) for i in range(tot // 5)]

def bech32m_ref(hrp, vals):
    exp = [c >> 5 for c in hrp] + [0] + [c & 31 for c in hrp]
    pm = C14.polymod(exp + [z3.ZeroExt(3, v) if v.size() == 5 else v for v in vals] + [0] * 6) ^ 0x2bc830a3
    chk = [z3.simplify(z3.Extract(4, 0, z3.LShR(pm, 5 * (5 - i)))) for i in range(6)]
    return list(hrp) + [ord('1')] + [C14.charset_char(v) for v in list(vals) + chk]

def check_state(E, f, ob, key, scripts, res):
    """post-condition on one terminated path; returns a z3 formula 'property violated' (or True/False)"""
    out1 = f.aux.get('out1', []); out2 = f.aux.get('out2', [])
    addr = between(out1, b'Resulting Bech32m address: ')
    if addr is None: return True, 'no address printed'
    tweak = f.aux.get('tweak'); outkey = f.aux.get('outkey'); par = f.aux.get('parity')
    if tweak is None or outkey is None: return True, 'tweak / serialisation never reached'
    bad = []
    # address = bech32m("bcrt", [1] + convertbits(output key))
    want_addr = bech32m_ref(b'bcrt', [z3.BitVecVal(1, 5)] + convertbits_8_to_5(outkey))
    d = refexec.differs(addr, want_addr)
    if d is not False: bad.append(('address', d))
    if ob['idx'] is not None:
        ctl_hex = between(out2, b'Final control object = ')
        if ctl_hex is None: return True, 'no control object logged'
        if ctl_hex[:2] == list(b'<H'): ctl = f.aux['hexes'][int(bytes(ctl_hex[2:-1]))]
        else: ctl = unhex(ctl_hex)
        m = (len(ctl) - 33) // 32
        if len(ctl) != 33 + 32 * m: return True, 'control object of %d bytes' % len(ctl)
        s = scripts[ob['idx']]
        script = [2] + s                                     # push of the two payload bytes
        k = hashref.tagged(b'TapLeaf', [0xc0] + hashref.compact_size(len(script)) + script)
        for j in range(m):
            node = ctl[33 + 32 * j: 65 + 32 * j]
            lt = lex_lt(k, node)
            if os.environ.get('VERIF_WITNESS_FLIP'): lt = z3.Not(lt)        # vacuity witness: with the reference order flipped the check must report a violation
            a = hashref.tagged(b'TapBranch', list(k) + list(node)); b = hashref.tagged(b'TapBranch', list(node) + list(k))
            k = [z3.simplify(z3.If(lt, R.B(x), R.B(y))) for x, y in zip(a, b)]
        want_tweak = hashref.tagged(b'TapTweak', list(key) + list(k))
        d1 = refexec.differs(tweak, want_tweak)
        if d1 is not False: bad.append(('merkle-proof', d1))
        d2 = refexec.differs(ctl[1:33], key)
        if d2 is not False: bad.append(('internal-key', d2))
        d3 = z3.simplify(R.B(ctl[0]) != z3.If(R.B(par) == 3, z3.BitVecVal(0xc1, 8), z3.BitVecVal(0xc0, 8)))
        if not z3.is_false(d3): bad.append(('parity', d3))
    if not bad: return False, ''
    terms = [d for _, d in bad]
    if any(t is True for t in terms): return True, bad[[t is True for t in terms].index(True)][0]
    return z3.Or(*terms) if len(terms) > 1 else terms[0], '+'.join(n for n, _ in bad)

def run(E, ob):
    res = mkres(ob['name'])
    args, key, scripts = argv_for(ob)
    st = E.new_state(); st.aux['tty'] = (1, 1, 1); st.aux['parity_in'] = ob.get('parity', 2); st.aux['symleaves'] = ob.get('symleaves')
    argc, av = procenv.make_argv(E, st, args)
    E.call(st, '@w_tap_main', [argc, av])
    fin = E.run(st)
    res['paths'] = len(fin); inputs = dict(key=key, scripts=scripts); cls = {}
    addrs = []
    for f in fin:
        r = f.result
        c = 'ret' if r and r[0] in ('ret', 'exit') else ('crash:' + str(r[1]) if r else 'none')
        if r and r[0] == 'violation' and r[1] == 'unreachable' and 'tap_main' in r[2]: c = 'ret'          # main() ends without a return statement (fine for main, UB only for the renamed copy)
        if r and r[0] == 'exit' and r[1] != 0: c = 'exit%d' % r[1]
        cls[c] = cls.get(c, 0) + 1
        if c.startswith('crash'):
            res['status'] = 'violated'; res['note'] = 'tap terminated abnormally: %r' % (r,); res['key'] = 'C06:crash'; res['cex'] = {}; break
        if c != 'ret':
            # a refusal (exit 1): only legitimate when the internal key does not parse - with the parse predicate uninterpreted both outcomes exist
            continue
        viol, what = check_state(E, f, ob, key, scripts, res)
        if viol is False: continue
        sol = z3.Solver(); sol.set('timeout', E.query_timeout_ms)
        for cnd in f.pc: sol.add(cnd)
        if viol is not True: sol.add(viol)
        rr = sol.check(); res['queries'] += 1
        if rr == z3.sat:
            m = sol.model(); res['status'] = 'violated'; res['sat'] += 1
            res['note'] = 'n=%d index=%s: %s does not verify under BIP341' % (ob['n'], ob['idx'], what); res['key'] = 'C06:' + what
            res['cex'] = sesslib.concretize(m, inputs); break
        elif rr == z3.unknown: res['status'] = 'inconclusive'; res['note'] = 'solver unknown'; res['unknown'] += 1
        else: res['unsat'] += 1
    res['classes'] = cls
    if not any(k == 'ret' for k in cls) and res['status'] == 'holds': res['status'] = 'inconclusive'; res['note'] = 'no successful run: %s' % cls
    return res

_BIN = {}
def build_tap(wd):
    if wd in _BIN: return _BIN[wd]
    import concurrent.futures as cf
    srcs = ['tap.cpp', 'functions.cpp', 'instance.cpp'] + [build.TUS[t] for t in build.ALL_NATIVE] + ['kerl/kerl.c']
    def one(s):
        o = os.path.join(wd, 'tapt_' + s.replace('/', '_') + '.o')
        if s.endswith('.c'): cmd = ['gcc', '-std=gnu99', '-O1', '-w', '-I' + build.REPO, '-I' + build.REPO + '/kerl', '-c', os.path.join(build.REPO, s), '-o', o]
        else: cmd = ['g++', '-std=c++17', '-O1', '-w', '-I' + build.REPO, '-I' + build.REPO + '/secp256k1/include', '-DHAVE_CONFIG_H', '-c', os.path.join(build.REPO, s), '-o', o]
        r = subprocess.run(cmd, stdout=subprocess.PIPE, stderr=subprocess.STDOUT, text=True)
        if r.returncode: raise build.BuildError(r.stdout[-2000:])
        return o
    with cf.ThreadPoolExecutor(16) as ex: objs = list(ex.map(one, srcs))
    secp = os.path.join(wd, 'secp_pic.a')
    out = os.path.join(wd, 'tap')
    r = subprocess.run(['g++', '-o', out] + objs + [secp], stdout=subprocess.PIPE, stderr=subprocess.STDOUT, text=True)
    if r.returncode: raise build.BuildError(r.stdout[-2000:])
    _BIN[wd] = out; return out

def native_check(exe, key, scripts, idx):
    """run the real tap binary and verify its output with an independent BIP341 implementation (real SHA-256; the curve step is taken from the address)"""
    import hashlib
    def tagged(tag, d): t = hashlib.sha256(tag).digest(); return hashlib.sha256(t + t + bytes(d)).digest()
    cmd = [exe, bytes(key).hex(), str(len(scripts))] + ['[0x%s]' % bytes(s).hex() for s in scripts] + ([str(idx)] if idx is not None else [])
    rc, out, err = runtool.run(cmd, stdin_tty=True, stdout_tty=True)
    txt = (out + err).replace(b'\r\n', b'\n').decode('latin1')
    import re
    ma = re.search(r'Resulting Bech32m address: (\S+)', txt); mc = re.search(r'Final control object = ([0-9a-f]+)', txt); mt = re.search(r'Tweak value = TapTweak\([0-9a-f]+ \|\| ([0-9a-f]+)\) = ([0-9a-f]+)', txt)
    if rc != 0 or not ma: return None, 'tap exit %s: %s' % (rc, txt[-300:])
    res = dict(address=ma.group(1))
    if idx is not None and mc and mt:
        ctl = bytes.fromhex(mc.group(1)); script = bytes([2]) + bytes(scripts[idx])
        k = tagged(b'TapLeaf', bytes([0xc0]) + bytes([len(script)]) + script)
        for j in range((len(ctl) - 33) // 32):
            node = ctl[33 + 32 * j:65 + 32 * j]; k = tagged(b'TapBranch', k + node) if k < node else tagged(b'TapBranch', node + k)
        res['proof_ok'] = (k.hex() == mt.group(1)) and ctl[1:33] == bytes(key)
        res['root'] = mt.group(1)
    return res, txt[-200:]

def replay(lib, ob, cex):
    exe = build_tap(os.path.dirname(lib._name))
    r, txt = native_check(exe, cex['key'], cex['scripts'], ob['idx'])
    if r is None: return None, txt
    return (r.get('proof_ok') is False), 'real tap: %s' % r

def validate(E, lib):
    """the real tap binary on concrete inputs: every spending index must give the same address and a control block that an independent BIP341 fold accepts"""
    import random
    rnd = random.Random(6); n = 0
    exe = build_tap(os.path.dirname(lib._name))
    key = bytes.fromhex('f30544d6009c8d8d94f5d030b2e844b1a3ca036255161c479db1cca5b374dd1c')
    for cnt in (1, 2, 3, 5):
        scripts = [[rnd.randrange(256), rnd.randrange(256)] for _ in range(cnt)]
        base, _ = native_check(exe, key, scripts, None)
        if base is None: raise EncoderMismatch('tap failed natively: ' + _)
        for i in range(cnt):
            r, txt = native_check(exe, key, scripts, i)
            if r is None or r['address'] != base['address'] or not r.get('proof_ok'): raise EncoderMismatch('native tap output does not verify: n=%d i=%d %r' % (cnt, i, r))
            n += 1
    return n
