"""C06 - tap: the printed address and the emitted control blocks verify under BIP341, whatever leaf is spent (real main() of tap run symbolically)."""
import z3, os, subprocess
import stubs, procenv, libc, hlib, hashref, refscript as R, refexec, sesslib, build, runtool
from irsym import is_sym, bv, simp, Unsupported
from core import mkres, EncoderMismatch, NativeViolation
import C07, C14, C03, sighashlib

ID = 'C06'
TITLE = "tap's real main() run in the engine (scripted argv; internal key and script payloads symbolic, so leaf hashes sort either way): the emitted control block folded by the BIP341 rule must reproduce the Merkle root whose TapTweak was passed to the tweak, the parity bit must be the tweaked key's, and the printed address must be bech32m(hrp, 1, output key) independent of the spending index"
TUS = ['functions', 'instance', 'value', 'interp', 'script', 'dbginterp', 'dbgscript', 'strenc', 'pubkey', 'hash', 'sha256', 'ripemd160', 'sha1', 'uint256', 'tx', 'script_error', 'base58', 'bech32', 'arith', 'merkle']
SHIMS = ['maintap']
NATIVE = True
NATIVE_TUS = build.ALL_NATIVE + ['instance', 'functions', 'kerl']
FUNCTIONS = ['main() of tap.cpp (argument handling, script parsing, TapLeaf/TapBranch construction, pairing loop and leftover handling, merge loop, TapBranch::Prove, TapTweak, parity into the control byte, bech32m address, witness insertion with --tx/--txin/--sig, sighash report)',
             'Instance::parse_transaction / parse_input_transaction / configure_tx_txin / calc_sighash', 'SignatureHashSchnorr', 'PrecomputedTransactionData::Init',
             'TapLeaf::TapLeaf', 'TapBranch::TapBranch', 'TapBranch::Prove', 'Value::do_bech32menc', 'bech32::Encode', 'ConvertBits<8,5>', 'HashWriter / TaggedHash']
ASSUMPTIONS = ['secp256k1_xonly_pubkey_parse is an uninterpreted predicate; secp256k1_xonly_pubkey_tweak_add records the tweak it is given and returns a fixed opaque point (each parity is a separate obligation); secp256k1_ec_pubkey_serialize serialises that point; ECC_Start/ECC_Stop stubbed', 'leaf script payloads become symbolic at the entry of TapLeaf::TapLeaf (argv itself is concrete), so leaf and branch hashes are unconstrained and every sort order at every branch is explored',
               'SHA-256 compression uninterpreted on symbolic input', 'process environment modelled (getopt_long, ttys, printf capture); stdout and stderr are terminals so that the control object is logged',
               'verification of the commitment by the debugger itself is decided by C05 on arbitrary control blocks, which includes the ones emitted here']
OUTSIDE = ['n > 4 leaves in quick / n > 5 in thorough (measured: n = 5 returns unknown on some index, n = 6 exceeds 240 s - 2^n sort orders over nested hash terms); (tree code is uniform in n, depth grows)', 'the --privkey signing path (ENABLE_DANGEROUS is off in this build)', 'pseudo-terminal handling']
BOUNDS = {'quick': 'n = 1..4 leaf scripts (all symbolic) x every spending index (and no index, compared with index 0); n = 5..8, 10, 12 with the spent leaf symbolic; leaf scripts of 3 bytes, and 28/29/252/253/254 bytes for the spent leaf; --tx/--txin (1 input, 1 output; version, lock time, sequence, output value, spent amount symbolic) key path and script path, with/without --sig, with spend arguments; internal key concrete (it only feeds uninterpreted functions and the hash); each script a 2-byte symbolic push; both parities of the output key', 'thorough': 'n = 1..5 all leaves symbolic; n = 5..16 every index and n in {20,24,32,33} six indices with the spent leaf symbolic (a full sweep to n = 24 took 94 min); long leaves 28..257 bytes; --tx/--txin up to n = 8'}

TWEAKADD = z3.Function('xonly_tweak_add', z3.BitVecSort(256), z3.BitVecSort(256), z3.BitVecSort(264))       # (internal key, tweak) -> parity byte || x

def setup(E):
    stubs.install_all(E)
    procenv.install(E, tty=(1, 1, 1))
    procenv.install_tinyformat(E)
    def hexstr(E, st, fr, I, A):
        # symbolic bytes are logged through a placeholder (<Hn>) that the check maps back to the byte terms; concrete bytes are really formatted
        sret, p, n = A
        bs = stubs.rd(E, st, p, n) if n else []
        E.store(st, sret, 8, sret + 16); E.store(st, sret + 8, 8, 0); E.store(st, sret + 16, 1, 0)
        if any(is_sym(b) for b in bs):
            hx = list(st.aux.get('hexes', [])); hx.append(bs); st.aux['hexes'] = hx
            E.s_set(E, st, sret, list(b'<H%d>' % (len(hx) - 1)))
        else: E.s_set(E, st, sret, list(bytes(bs).hex().encode()))
        return None
    E.stubs['_Z6HexStrB5cxx114SpanIKhE'] = hexstr
    for n in ('_ZN15ECCVerifyHandleC1Ev', '_ZN15ECCVerifyHandleC2Ev', '_ZN15ECCVerifyHandleD1Ev', '_ZN15ECCVerifyHandleD2Ev', '_Z9ECC_Startv', '_Z8ECC_Stopv'): E.stubs[n] = lambda E, st, fr, I, A: None
    # log lines carry the control object: capture them on stderr
    def logf(E, st, fr, I, A):
        cs = E.fmt(E, st, A[0], A, 1); E.out_append(st, 2, cs); return 0
    E.stubs['_Z15btc_logf_stderrPKcz'] = logf
    def tweak_add(E, st, fr, I, A):
        ctx, out, xonly, tweak = A
        st.aux['tweak'] = stubs.rd(E, st, tweak, 32); st.aux['ikey'] = stubs.rd(E, st, xonly, 32)
        # the tweaked point is opaque to this check: a fixed byte pattern stands for it (parity chosen per obligation), so that the
        # address path stays concrete; what is decided is that the tweak handed in is TapTweak(P || root of the emitted proof)
        bs = [st.aux.get('parity_in', 2)] + [(37 * i + 11) & 0xff for i in range(32)]
        stubs.wr(E, st, out, bs + [0] * 31)
        return 1
    def cscript_payload(E, st, script):
        """address of the two payload bytes of a leaf script as argv_for writes it ([02 xx xx] or [4c len xx xx 00...]); CScript = prevector<28>: direct storage up to 28 bytes, else a heap pointer"""
        size = E.load(st, script + 28, 4)
        if is_sym(size): return None
        data = script if size <= 28 else E.load(st, script, 8)
        b0 = E.load(st, data, 1)
        if is_sym(b0) or is_sym(data): return None
        if b0 == 2: return data + 1
        if b0 == 0x4c: return data + 2
        return None
    def tapleaf_ctor(E, st, fr, I, A):
        this, index, script = A
        # make the leaf script's payload symbolic at the moment it is hashed (argv stays concrete, so parsing costs nothing)
        p = cscript_payload(E, st, script)
        if p is not None and not st.aux.get('leaf_done_%d' % index) and (st.aux.get('symleaves') is None or index in st.aux['symleaves']):
            for j in range(2): E.store(st, p + j, 1, z3.BitVec('s%d_%d' % (index, j), 8))
            st.aux['leaf_done_%d' % index] = True
        return stubs.NOT_HANDLED
    E.stubs['_ZN7TapLeafC2EmRK7CScript'] = tapleaf_ctor
    def has_valid_ops(E, st, fr, I, A):
        # --tx/--txin obligations: the spent script is copied into the witness before its TapLeaf is built, so its payload must become symbolic earlier:
        # at the validity test main() applies to every parsed script (the argv pattern [02 a<i> b<i>] identifies the leaf)
        if st.aux.get('tapsym'):
            p = cscript_payload(E, st, A[0])
            b = [E.load(st, p + j, 1) for j in range(2)] if p is not None else [z3.BitVec('x', 8)]
            if not any(is_sym(x) for x in b) and (b[0] & 0xf0) == 0xa0 and b[1] == (b[0] & 0x0f) | 0xb0 and (b[0] & 0x0f) in (st.aux.get('symleaves') or []):
                for j in range(2): E.store(st, p + j, 1, z3.BitVec('s%d_%d' % (b[0] & 0x0f, j), 8))
        return stubs.NOT_HANDLED
    E.stubs['_ZNK7CScript11HasValidOpsEv'] = has_valid_ops
    def parse_input_tx(E, st, fr, I, A):
        # sighash obligations: as soon as tap's main() has parsed both transactions (Instance::parse_input_transaction returned), the signed-over
        # fields of the parsed transactions are replaced by symbolic bytes (shim w_tap_symbolize reads them from the global verif_tap_sym)
        if st.aux.get('tapsym_done') or not st.aux.get('tapsym'): return stubs.NOT_HANDLED
        st.aux['tapsym_done'] = True
        this = A[0]
        def post(st2, v): E.call(st2, '@w_tap_symbolize', [this], ret_to='reexec')
        E.call(st, E.E.resolve_alias(I['callee'].name), A, ret_to=('post', post))
        return 'handled'
    E.stubs.prefix('_ZN8Instance23parse_input_transactionE', parse_input_tx)
    E.stubs['secp256k1_xonly_pubkey_tweak_add'] = tweak_add
    def serialize(E, st, fr, I, A):
        ctx, out, lenp, pk, flags = A
        bs = stubs.rd(E, st, pk, 33)
        par = simp(z3.If((bv(bs[0], 8) & 1) == 1, z3.BitVecVal(3, 8), z3.BitVecVal(2, 8)))
        stubs.wr(E, st, out, [par] + bs[1:]); E.store(st, lenp, 8, 33)
        st.aux['outkey'] = bs[1:]; st.aux['parity'] = par
        return 1
    E.stubs['secp256k1_ec_pubkey_serialize'] = serialize

def obligations(tier, seed):
    obs = []
    for n in range(1, 5 if tier == 'quick' else 6):
        obs.append(dict(name='tap/n%d/noindex' % n, kind='tap', n=n, idx=None, cost=2 ** n))
        for i in range(n):
            for par in (2, 3): obs.append(dict(name='tap/n%d/index%d/parity%d' % (n, i, par), kind='tap', n=n, idx=i, parity=par, cost=2 ** n))
    # larger trees: only the spent leaf (and its neighbour) symbolic, the other leaves concrete - the sort order is explored along the proof path
    for n in (list(range(5, 9)) + [10, 12] if tier == 'quick' else list(range(5, 17)) + [20, 24, 32, 33]):
        for i in (range(n) if ((tier != 'quick' and n <= 16) or n <= 8) else sorted({0, 1, n // 2, n - 3, n - 2, n - 1})):
            obs.append(dict(name='tap/n%d/index%d/spent-leaf-symbolic' % (n, i), kind='tap', n=n, idx=i, parity=2 + (i & 1), symleaves=[i], cost=n))
    # leaf scripts at the compact-size boundary of the TapLeaf hash (252 / 253 / 254 bytes) and at the prevector direct/indirect boundary (28 / 29)
    for slen in (28, 29, 252, 253, 254) if tier == 'quick' else (28, 29, 76, 77, 128, 252, 253, 254, 255, 257):
        for n, idx in ((1, 0), (2, 1), (3, 0)):
            obs.append(dict(name='tap/n%d/index%d/leaf%dbytes' % (n, idx, slen), kind='tap', n=n, idx=idx, parity=2 + (slen & 1), symleaves=[idx], slen=slen, cost=n))
    for slen in (253,) if tier == 'quick' else (29, 252, 253, 254):
        for n in (1, 2): obs.append(dict(name='tap/n%d/noindex/leaf%dbytes' % (n, slen), kind='tap', n=n, idx=None, slen=slen, cost=2 ** n))
    # --tx/--txin: witness insertion and the reported signature hash (key path: no spending index; script path: index given), with and without --sig
    for n, idx in ((1, None), (2, None), (1, 0), (2, 0), (2, 1), (3, 2), (5, 4)) if tier == 'quick' else ((1, None), (2, None), (3, None), (1, 0), (2, 0), (2, 1), (3, 0), (3, 2), (4, 1), (5, 4), (6, 3), (8, 7)):
        for sig in (0, 1):
            obs.append(dict(name='tap-tx/n%d/%s/sig%d' % (n, 'keypath' if idx is None else 'index%d' % idx, sig), kind='taptx', n=n, idx=idx, parity=2 + (n & 1), symleaves=[idx] if idx is not None else [], sig=sig, cost=n))
    # the spent taproot output is not the first output of the funding transaction (seed C06-3)
    for n, idx in ((1, None), (2, 1), (1, 0)):
        for fv in (1, 2): obs.append(dict(name='tap-tx/n%d/%s/sig0/funding-vout%d' % (n, 'keypath' if idx is None else 'index%d' % idx, fv), kind='taptx', n=n, idx=idx, parity=2, symleaves=[idx] if idx is not None else [], sig=0, fvout=fv, cost=n))
    for n, idx in ((1, 0), (2, 1), (3, 1)):
        for sig in (0, 1): obs.append(dict(name='tap-tx/n%d/index%d/sig%d/two-spend-args' % (n, idx, sig), kind='taptx', n=n, idx=idx, parity=3 - (n & 1), symleaves=[idx], sig=sig, spendargs=[[0x07], [0x01, 0x02, 0x03]], cost=n))
    for slen in (253,) if tier == 'quick' else (29, 252, 253, 254): obs.append(dict(name='tap-tx/n2/index1/sig1/leaf%dbytes' % slen, kind='taptx', n=2, idx=1, parity=2, symleaves=[1], sig=1, slen=slen, cost=3))
    # --addrprefix: the human-readable part is used as given (BIP173 allows '1' inside and at the end of it; seed C06-8)
    for hrp in (b'tb', b'bc', b'x1', b'tb1', b'1', b'a1b', b'11', b'q1q1'):
        obs.append(dict(name='tap/n1/noindex/hrp-%s' % hrp.decode(), kind='tap', n=1, idx=None, hrp=hrp, cost=2))
        if hrp in (b'x1', b'tb'): obs.append(dict(name='tap/n2/index1/parity2/hrp-%s' % hrp.decode(), kind='tap', n=2, idx=1, parity=2, hrp=hrp, cost=4))
    return obs

SIG64 = [(5 * i + 1) & 0xff for i in range(64)]
OTHER_SPK = [0x51, 0x20] + [(91 * i + 5) & 0xff for i in range(32)]          # another taproot output in the funding transaction
PROGRAM = [(37 * i + 11) & 0xff for i in range(32)]          # the opaque tweaked key of the tweak_add stub: the funding output pays to it
def tap_txs(V=None, fvout=0):
    """concrete funding / spending transaction pair (the fields the digest signs over are made symbolic after parsing) and the symbolic field bytes"""
    import hashlib
    sym = V is None
    def var(nm): return z3.BitVec(nm, 8) if sym else V.get(nm, 0)
    f_outs = [((100000).to_bytes(8, 'little'), [0x51, 0x20] + PROGRAM)]
    for k in range(fvout): f_outs.insert(0, ((70000 + k).to_bytes(8, 'little'), OTHER_SPK))          # outputs in front of the spent one
    f_full, f_stripped = C03.ser_tx([2, 0, 0, 0], [([0x11] * 32, [0, 0, 0, 0], [], [0xff] * 4, None)], f_outs, [0, 0, 0, 0])
    txid = list(hashlib.sha256(hashlib.sha256(bytes(f_stripped)).digest()).digest())
    out_spk = [0x00, 0x14] + [0x22] * 20
    s_full, _ = C03.ser_tx([2, 0, 0, 0], [(txid, list(fvout.to_bytes(4, 'little')), [], [0xfe, 0xff, 0xff, 0xff], None)], [((90000).to_bytes(8, 'little'), out_spk)], [0, 0, 0, 0])
    fields = dict(amount2=[var('amu%d' % i) for i in range(8)], ver=[var('ver%d' % i) for i in range(4)], lock=[var('lock%d' % i) for i in range(4)], seq=[var('seq%d' % i) for i in range(4)], oval=[var('oval%d' % i) for i in range(8)], amount=[var('amt%d' % i) for i in range(8)])
    return f_full, s_full, txid, out_spk, fields

def leaf_len(ob, i): return ob.get('slen', 3) if i == ob.get('idx') or (ob.get('idx') is None and i == 0) else 3
def full_script(ob, i, s):
    """bytes of leaf script i with the two payload bytes s: a 2-byte push, or - for the long leaf of an obligation - OP_PUSHDATA1 <len> s 00..00"""
    L = leaf_len(ob, i)
    return [2] + list(s) if L == 3 else [0x4c, L - 2] + list(s) + [0] * (L - 4)

def argv_for(ob, V=None):
    sym = V is None
    def var(nm): return z3.BitVec(nm, 8) if sym else V.get(nm, 0)
    key = list(bytes.fromhex('f30544d6009c8d8d94f5d030b2e844b1a3ca036255161c479db1cca5b374dd1c'))      # concrete internal key: 64 symbolic hex characters cost ~60 s of feasibility queries in TryHex alone; the key only feeds uninterpreted functions
    scripts = [[var('s%d_%d' % (i, j)) for j in range(2)] for i in range(ob['n'])]
    args = [list(b'tap'), C07.to_hex(key), list(str(ob['n']).encode())]
    for i, s in enumerate(scripts):
        if leaf_len(ob, i) == 3: args.append(list(b'[0x') + (list(b'a%db%d' % (i % 10, i % 10)) if sym else C07.to_hex(s)) + list(b']'))
        else: args.append(C07.to_hex(full_script(ob, i, [0xa0 + i % 10, 0xb0 + i % 10] if sym else s)))          # a long leaf is given as the raw hex of the script
    if ob['idx'] is not None: args.append(list(str(ob['idx']).encode()))
    for a in ob.get('spendargs', []): args.append(list(b'0x') + C07.to_hex(a))
    if ob.get('hrp') is not None: args = [args[0], list(b'--addrprefix=') + list(ob['hrp'])] + args[1:]
    if ob.get('kind') == 'taptx':
        f_full, s_full, txid, out_spk, fields = tap_txs(V, ob.get('fvout', 0))
        opts = [list(b'--tx=') + C07.to_hex(s_full), list(b'--txin=') + C07.to_hex(f_full)]
        if ob['sig']: opts.append(list(b'--sig=') + C07.to_hex(SIG64))
        args = [args[0]] + opts + args[1:]
    norm = lambda a: [z3.simplify(x).as_long() if (is_sym(x) and z3.is_bv_value(z3.simplify(x))) else x for x in a]
    return [norm(a) for a in args], key, scripts

def between(chars, start, end=b'\n'):
    """the characters following the literal `start` up to `end` in a captured (partly symbolic) text"""
    n = len(start)
    for i in range(len(chars) - n + 1):
        if all((not is_sym(chars[i + j])) and chars[i + j] == start[j] for j in range(n)):
            out = []
            for c in chars[i + n:]:
                if not is_sym(c) and c in end: return out
                out.append(c)
            return out
    return None

def unhex(chars):
    f = lambda c: z3.If(z3.ULE(R.B(c), 57), R.B(c) - 48, R.B(c) - 87)
    return [z3.simplify((f(chars[2 * i]) << 4) | f(chars[2 * i + 1])) for i in range(len(chars) // 2)]

def lex_lt(a, b):
    """lexicographic a < b over byte lists, built exactly like the engine's memcmp model (so that the implementation's own comparison
    terms and the reference's simplify to the same thing instead of leaving a 256-bit ULT-vs-bytewise equivalence to the solver)"""
    r = z3.BitVecVal(0, 32)
    for x, y in reversed(list(zip(a, b))):
        X = R.B(x); Y = R.B(y)
        r = z3.If(X == Y, r, z3.If(z3.UGT(X, Y), z3.BitVecVal(1, 32), z3.BitVecVal(0xffffffff, 32)))
    return z3.simplify(r == 0xffffffff)

def convertbits_8_to_5(bs):
    """BIP173 regrouping of bytes into 5-bit symbols with zero padding"""
    bits = z3.Concat(*[R.B(b) for b in bs]); n = 8 * len(bs)
    pad = (5 - n % 5) % 5
    if pad: bits = z3.Concat(bits, z3.BitVecVal(0, pad))
    tot = n + pad
    return [z3.simplify(z3.Extract(tot - 1 - 5 * i, tot - 5 - 5 * i, bits)) for i in range(tot // 5)]

def bech32m_ref(hrp, vals):
    exp = [c >> 5 for c in hrp] + [0] + [c & 31 for c in hrp]
    pm = C14.polymod(exp + [z3.ZeroExt(3, v) if v.size() == 5 else v for v in vals] + [0] * 6) ^ 0x2bc830a3
    chk = [z3.simplify(z3.Extract(4, 0, z3.LShR(pm, 5 * (5 - i)))) for i in range(6)]
    return list(hrp) + [ord('1')] + [C14.charset_char(v) for v in list(vals) + chk]

def check_state(E, f, ob, key, scripts, res):
    """post-condition on one terminated path; returns a z3 formula 'property violated' (or True/False)"""
    out1 = f.aux.get('out1', []); out2 = f.aux.get('out2', [])
    addr = between(out1, b'Resulting Bech32m address: ')
    if addr is None: return True, 'no address printed'
    tweak = f.aux.get('tweak'); outkey = f.aux.get('outkey'); par = f.aux.get('parity')
    if tweak is None or outkey is None: return True, 'tweak / serialisation never reached'
    bad = []
    # address = bech32m("bcrt", [1] + convertbits(output key))
    want_addr = bech32m_ref(ob.get('hrp', b'bcrt'), [z3.BitVecVal(1, 5)] + convertbits_8_to_5(outkey))
    d = refexec.differs(addr, want_addr)
    if d is not False: bad.append(('address', d))
    if ob['idx'] is not None:
        ctl_hex = between(out2, b'Final control object = ')
        if ctl_hex is None: return True, 'no control object logged'
        if ctl_hex[:2] == list(b'<H'): ctl = f.aux['hexes'][int(bytes(ctl_hex[2:-1]))]
        else: ctl = unhex(ctl_hex)
        m = (len(ctl) - 33) // 32
        if len(ctl) != 33 + 32 * m: return True, 'control object of %d bytes' % len(ctl)
        script = full_script(ob, ob['idx'], scripts[ob['idx']])
        k = hashref.tagged(b'TapLeaf', [0xc0] + hashref.compact_size(len(script)) + script)
        for j in range(m):
            node = ctl[33 + 32 * j: 65 + 32 * j]
            lt = lex_lt(k, node)
            if os.environ.get('VERIF_WITNESS_FLIP'): lt = z3.Not(lt)        # vacuity witness: with the reference order flipped the check must report a violation
            a = hashref.tagged(b'TapBranch', list(k) + list(node)); b = hashref.tagged(b'TapBranch', list(node) + list(k))
            k = [z3.simplify(z3.If(lt, R.B(x), R.B(y))) for x, y in zip(a, b)]
        want_tweak = hashref.tagged(b'TapTweak', list(key) + list(k))
        d1 = refexec.differs(tweak, want_tweak)
        if d1 is not False: bad.append(('merkle-proof', d1))
        d2 = refexec.differs(ctl[1:33], key)
        if d2 is not False: bad.append(('internal-key', d2))
        d3 = z3.simplify(R.B(ctl[0]) != z3.If(R.B(par) == 3, z3.BitVecVal(0xc1, 8), z3.BitVecVal(0xc0, 8)))
        if not z3.is_false(d3): bad.append(('parity', d3))
    if not bad: return False, ''
    terms = [d for _, d in bad]
    if any(t is True for t in terms): return True, bad[[t is True for t in terms].index(True)][0]
    return z3.Or(*terms) if len(terms) > 1 else terms[0], '+'.join(n for n, _ in bad)

def logged_bytes(f, chars):
    """bytes behind a logged hex string (placeholder <Hn> for symbolic content, real hex otherwise)"""
    if chars is None: return None
    if chars[:2] == list(b'<H'): return list(f.aux['hexes'][int(bytes(chars[2:-1]))])
    return unhex(chars)

def check_taptx(E, f, ob, key, scripts):
    """--tx/--txin: the printed transaction is the given one with witness [sig, (script, control block)], and the reported sighash is the
    BIP341 (key path) / BIP342 (script path) digest of that printed transaction for hash type 0x00"""
    out1 = f.aux.get('out1', []); out2 = f.aux.get('out2', [])
    f_full, s_full, txid, out_spk, F = tap_txs(None, ob.get('fvout', 0))
    txb = logged_bytes(f, between(out1, b'Resulting transaction: '))
    sh = logged_bytes(f, between(out2, b'sighash (little endian) = '))
    if txb is None: return True, 'no resulting transaction printed'
    if sh is None: return True, 'no sighash reported'
    sig = SIG64 if ob['sig'] else list(bytes.fromhex('000102030405060708090a0b0c0d0e0f' * 4))       # the documented placeholder
    wit = [sig]
    leaf = None
    if ob['idx'] is not None:
        ctl = logged_bytes(f, between(out2, b'Final control object = '))
        if ctl is None: return True, 'no control object logged'
        script = full_script(ob, ob['idx'], scripts[ob['idx']])
        wit += [list(a) for a in ob.get('spendargs', [])] + [script, ctl]
        leaf = hashref.tagged(b'TapLeaf', [0xc0] + hashref.compact_size(len(script)) + script)
    ins = [(txid, list(ob.get('fvout', 0).to_bytes(4, 'little')), [], F['seq'], wit)]; outs = [(F['oval'], out_spk)]
    want_tx, _ = C03.ser_tx(F['ver'], ins, outs, F['lock'])
    bad = []
    d = refexec.differs(txb, want_tx)
    if d is not False: bad.append(('resulting-transaction', d))
    T = dict(ver=F['ver'], lock=F['lock'], ins=ins, outs=outs)
    spent = [(F['amount'], [0x51, 0x20] + PROGRAM)]
    class Ctx:
        def branch(s, c):
            c = z3.simplify(c) if is_sym(c) else c
            assert c is True or c is False or z3.is_true(c) or z3.is_false(c), 'hash type is concrete'
            return c is True or (c is not False and z3.is_true(c))
    want = sighashlib.ref_bip341(Ctx(), T, spent, 0, z3.BitVecVal(0, 8), R.TAPSCRIPT if leaf is not None else R.TAPROOT, None, None, leaf, [0xff] * 4)
    d = refexec.differs(sh, want)
    if d is not False: bad.append(('sighash', d))
    if not bad: return False, ''
    terms = [d for _, d in bad]
    if any(t is True for t in terms): return True, bad[[t is True for t in terms].index(True)][0]
    return (z3.Or(*terms) if len(terms) > 1 else terms[0]), '+'.join(n for n, _ in bad)

def run(E, ob):
    res = mkres(ob['name'])
    args, key, scripts = argv_for(ob)
    st = E.new_state(); st.aux['tty'] = (1, 1, 1); st.aux['parity_in'] = ob.get('parity', 2); st.aux['symleaves'] = ob.get('symleaves')
    if ob['kind'] == 'taptx':
        f_full, s_full, txid, out_spk, fields = tap_txs(None, ob.get('fvout', 0))
        st.aux['tapsym'] = True
        ga = E.gaddr_of(st, '@verif_tap_sym')
        for i, b in enumerate(fields['ver'] + fields['lock'] + fields['seq'] + fields['oval'] + fields['amount'] + fields['amount2']): E.store(st, ga + i, 1, b)
        inputs = None
    argc, av = procenv.make_argv(E, st, args)
    E.call(st, '@w_tap_main', [argc, av])
    fin = E.run(st)
    res['paths'] = len(fin); inputs = dict(key=key, scripts=scripts); cls = {}
    if ob['kind'] == 'taptx': inputs['fields'] = fields
    addrs = []
    for f in fin:
        r = f.result
        c = 'ret' if r and r[0] in ('ret', 'exit') else ('crash:' + str(r[1]) if r else 'none')
        if r and r[0] == 'violation' and r[1] == 'unreachable' and 'tap_main' in r[2]: c = 'ret'          # main() ends without a return statement (fine for main, UB only for the renamed copy)
        if r and r[0] == 'exit' and r[1] != 0: c = 'exit%d' % r[1]
        cls[c] = cls.get(c, 0) + 1
        if c.startswith('crash'):
            res['status'] = 'violated'; res['note'] = 'tap terminated abnormally: %r' % (r,); res['key'] = 'C06:crash'; res['cex'] = {}; break
        if c != 'ret':
            # a refusal (exit 1): only legitimate when the internal key does not parse - with the parse predicate uninterpreted both outcomes exist
            continue
        viol, what = check_state(E, f, ob, key, scripts, res)
        if ob['kind'] == 'taptx':
            v2, w2 = check_taptx(E, f, ob, key, scripts)
            if v2 is True or viol is True: viol = True; what = w2 if v2 is True else what
            elif v2 is not False: viol = v2 if viol is False else z3.Or(viol, v2); what = (what + '+' if what else '') + w2
        if viol is False: continue
        for attempt in (1, 6):          # a query that comes back unknown is repeated once with a six-fold time limit (loaded machine)
            sol = z3.Solver(); sol.set('timeout', E.query_timeout_ms * attempt)
            for cnd in f.pc: sol.add(cnd)
            if viol is not True: sol.add(viol)
            rr = sol.check(); res['queries'] += 1
            if rr != z3.unknown: break
        if rr == z3.sat:
            m = sol.model(); res['status'] = 'violated'; res['sat'] += 1
            res['note'] = 'n=%d index=%s: %s does not verify under BIP341' % (ob['n'], ob['idx'], what); res['key'] = 'C06:' + what
            res['cex'] = sesslib.concretize(m, inputs); break
        elif rr == z3.unknown: res['status'] = 'inconclusive'; res['note'] = 'solver unknown'; res['unknown'] += 1
        else: res['unsat'] += 1
    if ob['kind'] == 'tap' and ob['idx'] is None and res['status'] == 'holds':
        # the address (and the tweak behind it) must be the same whether or not a leaf is selected: second run with leaf 0 selected, compared path by path
        ob2 = dict(ob, idx=0, parity=ob.get('parity', 2))
        args2, _, _ = argv_for(ob2)
        st2 = E.new_state(); st2.aux['tty'] = (1, 1, 1); st2.aux['parity_in'] = ob2['parity']; st2.aux['symleaves'] = ob.get('symleaves')
        argc2, av2 = procenv.make_argv(E, st2, args2)
        E.call(st2, '@w_tap_main', [argc2, av2])
        fin2 = [g for g in E.run(st2) if g.aux.get('tweak') is not None and between(g.aux.get('out1', []), b'Resulting Bech32m address: ') is not None]
        res['paths'] += len(fin2)
        for f in fin:
            if f.aux.get('tweak') is None: continue
            a1 = between(f.aux.get('out1', []), b'Resulting Bech32m address: ')
            if a1 is None: continue
            for g in fin2:
                d = refexec.differs(dict(tweak=f.aux['tweak'], addr=a1), dict(tweak=g.aux['tweak'], addr=between(g.aux['out1'], b'Resulting Bech32m address: ')))
                if d is False: continue
                sol = z3.Solver(); sol.set('timeout', E.query_timeout_ms)
                for cnd in f.pc + g.pc: sol.add(cnd)
                if d is not True: sol.add(d)
                rr = sol.check(); res['queries'] += 1
                if rr == z3.sat:
                    res['status'] = 'violated'; res['sat'] += 1; res['note'] = 'n=%d: the tweak / address differs between a run without and a run with a selected leaf' % ob['n']; res['key'] = 'C06:address-depends-on-selection'
                    res['cex'] = sesslib.concretize(sol.model(), inputs); break
                elif rr == z3.unknown: res['status'] = 'inconclusive'; res['note'] = 'solver unknown (selection independence)'; res['unknown'] += 1
                else: res['unsat'] += 1
            if res['status'] != 'holds': break
    res['classes'] = cls
    if not any(k == 'ret' for k in cls) and res['status'] == 'holds': res['status'] = 'inconclusive'; res['note'] = 'no successful run: %s' % cls
    return res

_BIN = {}
def build_tap(wd):
    if wd in _BIN: return _BIN[wd]
    import concurrent.futures as cf
    srcs = ['tap.cpp', 'functions.cpp', 'instance.cpp'] + [build.TUS[t] for t in build.ALL_NATIVE] + ['kerl/kerl.c']
    def one(s):
        o = os.path.join(wd, 'tapt_' + s.replace('/', '_') + '.o')
        if s.endswith('.c'): cmd = ['gcc', '-std=gnu99', '-O1', '-w', '-DHAVE_CONFIG_H', '-I' + build.REPO, '-I' + build.REPO + '/config', '-I' + build.REPO + '/kerl', '-c', os.path.join(build.REPO, s), '-o', o]
        else: cmd = ['g++', '-std=c++17', '-O1', '-w', '-I' + build.REPO, '-I' + build.REPO + '/secp256k1/include', '-DHAVE_CONFIG_H', '-c', os.path.join(build.REPO, s), '-o', o]
        r = subprocess.run(cmd, stdout=subprocess.PIPE, stderr=subprocess.STDOUT, text=True)
        if r.returncode: raise build.BuildError(r.stdout[-2000:])
        return o
    with cf.ThreadPoolExecutor(16) as ex: objs = list(ex.map(one, srcs))
    secp = os.path.join(wd, 'secp_pic.a')
    out = os.path.join(wd, 'tap')
    r = subprocess.run(['g++', '-o', out] + objs + [secp, '-lreadline'], stdout=subprocess.PIPE, stderr=subprocess.STDOUT, text=True)
    if r.returncode: raise build.BuildError(r.stdout[-2000:])
    _BIN[wd] = out; return out

def script_args(ob, scripts):
    ob = ob or {}
    return [('[0x%s]' % bytes(s).hex()) if leaf_len(ob, i) == 3 else bytes(full_script(ob, i, s)).hex() for i, s in enumerate(scripts)]

def bech32m_concrete(hrp, prog):
    """BIP350 address of a version-1 witness program, on concrete values (replay only)"""
    CH = 'qpzry9x8gf2tvdw0s3jn54khce6mua7l'
    def polymod(vs):
        c = 1
        for v in vs:
            b = c >> 25; c = ((c & 0x1ffffff) << 5) ^ v
            for i, g in enumerate((0x3b6a57b2, 0x26508e6d, 0x1ea119fa, 0x3d4233dd, 0x2a1462b3)):
                if (b >> i) & 1: c ^= g
        return c
    acc = 0; bits = 0; data = [1]
    for b in prog:
        acc = (acc << 8) | b; bits += 8
        while bits >= 5: bits -= 5; data.append((acc >> bits) & 31)
    if bits: data.append((acc << (5 - bits)) & 31)
    exp = [c >> 5 for c in hrp] + [0] + [c & 31 for c in hrp]
    pm = polymod(exp + data + [0] * 6) ^ 0x2bc830a3
    return hrp.decode() + '1' + ''.join(CH[d] for d in data + [(pm >> 5 * (5 - i)) & 31 for i in range(6)])

def native_check(exe, key, scripts, idx, ob=None, raw=False):
    """run the real tap binary and verify its output with an independent BIP341 implementation (real SHA-256; the curve step is taken from the address)"""
    import hashlib
    def tagged(tag, d): t = hashlib.sha256(tag).digest(); return hashlib.sha256(t + t + bytes(d)).digest()
    cmd = [exe] + (['--addrprefix=' + bytes(ob['hrp']).decode()] if (ob or {}).get('hrp') is not None else []) + [bytes(key).hex(), str(len(scripts))] + ([('[0x%s]' % bytes(x).hex()) for x in scripts] if raw else script_args(ob, scripts)) + ([str(idx)] if idx is not None else [])          # raw: payloads of single pushes
    rc, out, err = runtool.run(cmd, stdin_tty=True, stdout_tty=True)
    txt = (out + err).replace(b'\r\n', b'\n').decode('latin1')
    import re
    ma = re.search(r'Resulting Bech32m address: (\S+)', txt); mc = re.search(r'Final control object = ([0-9a-f]+)', txt); mt = re.search(r'Tweak value = TapTweak\([0-9a-f]+ \|\| ([0-9a-f]+)\) = ([0-9a-f]+)', txt)
    if rc != 0 or not ma: return None, 'tap exit %s: %s' % (rc, txt[-300:])
    res = dict(address=ma.group(1))
    mk = re.search(r'Tweaked pubkey = ([0-9a-f]{64})', txt)
    if mk: res['want_address'] = bech32m_concrete(bytes((ob or {}).get('hrp', b'bcrt')), bytes.fromhex(mk.group(1)))
    if idx is not None and mc and mt:
        ctl = bytes.fromhex(mc.group(1)); script = bytes([len(scripts[idx])] + list(scripts[idx])) if raw else bytes(full_script(ob or {}, idx, scripts[idx]))
        k = tagged(b'TapLeaf', bytes([0xc0]) + bytes(hashref.compact_size(len(script))) + script)
        for j in range((len(ctl) - 33) // 32):
            node = ctl[33 + 32 * j:65 + 32 * j]; k = tagged(b'TapBranch', k + node) if k < node else tagged(b'TapBranch', node + k)
        res['proof_ok'] = (k.hex() == mt.group(1)) and ctl[1:33] == bytes(key)
        res['root'] = mt.group(1)
    return res, txt[-200:]

def native_taptx(exe, key, scripts, idx, F, sig, ob=None):
    """real tap binary with --tx/--txin built from concrete field values; the printed transaction and sighash are checked with hashlib"""
    import hashlib, re
    # the opaque tweaked key of the symbolic run is not the real one: pay the funding output to the real output key (taken from a run without transactions) so that tap accepts the pair
    rc, out, err = runtool.run([exe, bytes(key).hex(), str(len(scripts))] + script_args(ob, scripts), stdin_tty=True, stdout_tty=True)
    mk = re.search(r'Tweaked pubkey = ([0-9a-f]{64})', (out + err).decode('latin1'))
    if not mk: return None, 'tap without transactions failed: %s' % (out + err)[-300:]
    PROGRAM = list(bytes.fromhex(mk.group(1)))
    fv = (ob or {}).get('fvout', 0)
    f_outs = [(F.get('amount2', [0] * 8), OTHER_SPK)] * fv + [(F['amount'], [0x51, 0x20] + PROGRAM)]
    f_full, f_stripped = C03.ser_tx([2, 0, 0, 0], [([0x11] * 32, [0, 0, 0, 0], [], [0xff] * 4, None)], f_outs, [0, 0, 0, 0])
    txid = list(hashlib.sha256(hashlib.sha256(bytes(f_stripped)).digest()).digest())
    out_spk = [0x00, 0x14] + [0x22] * 20
    s_full, _ = C03.ser_tx(F['ver'], [(txid, list(fv.to_bytes(4, 'little')), [], F['seq'], None)], [(F['oval'], out_spk)], F['lock'])
    cmd = [exe, '--tx=' + bytes(s_full).hex(), '--txin=' + bytes(f_full).hex()] + (['--sig=' + bytes(SIG64).hex()] if sig else [])
    cmd += [bytes(key).hex(), str(len(scripts))] + script_args(ob, scripts) + ([str(idx)] if idx is not None else []) + ['0x' + bytes(a).hex() for a in (ob or {}).get('spendargs', [])]
    rc, out, err = runtool.run(cmd, stdin_tty=True, stdout_tty=True)
    txt = (out + err).replace(b'\r\n', b'\n').decode('latin1')
    mt = re.search(r'Resulting transaction: ([0-9a-f]+)', txt); ms = re.search(r'sighash \(little endian\) = ([0-9a-f]+)', txt); mc = re.search(r'Final control object = ([0-9a-f]+)', txt)
    if rc != 0 or not mt or not ms: return None, 'tap exit %s: %s' % (rc, txt[-400:])
    wit = [SIG64 if sig else list(bytes.fromhex('000102030405060708090a0b0c0d0e0f' * 4))]; leaf = None
    if idx is not None:
        script = full_script(ob or {}, idx, list(scripts[idx])); wit += [list(a) for a in (ob or {}).get('spendargs', [])] + [script, list(bytes.fromhex(mc.group(1)))]
        leaf = hashref.tagged(b'TapLeaf', [0xc0] + hashref.compact_size(len(script)) + script)
    ins = [(txid, list(fv.to_bytes(4, 'little')), [], F['seq'], wit)]; outs = [(F['oval'], out_spk)]
    want_tx, _ = C03.ser_tx(F['ver'], ins, outs, F['lock'])
    class Ctx:
        def branch(s, c): c = z3.simplify(c) if is_sym(c) else c; return c is True or (c is not False and z3.is_true(c))
    want = sighashlib.ref_bip341(Ctx(), dict(ver=F['ver'], lock=F['lock'], ins=ins, outs=outs), [(F['amount'], [0x51, 0x20] + PROGRAM)], 0, z3.BitVecVal(0, 8), R.TAPSCRIPT if leaf is not None else R.TAPROOT, None, None, leaf, [0xff] * 4)
    want = bytes(sesslib.concretize(_m0(), want))
    return dict(tx_ok=(mt.group(1) == bytes(want_tx).hex()), sighash_ok=(ms.group(1) == want.hex()), sighash=ms.group(1), want=want.hex()), txt[-200:]
def _m0():
    s = z3.Solver(); s.check(); return s.model()

def replay(lib, ob, cex):
    exe = build_tap(os.path.dirname(lib._name))
    if ob is None: ob = dict(kind='taptx' if 'fields' in cex else 'tap', idx=cex.get('idx'), sig=cex.get('sig', 0), n=len(cex['scripts']))      # a violation observed natively during validation
    if ob['kind'] == 'taptx':
        r, txt = native_taptx(exe, cex['key'], cex['scripts'], ob['idx'], cex['fields'], ob['sig'], ob)
        if r is None: return None, txt
        return (not r['tx_ok'] or not r['sighash_ok']), 'real tap --tx/--txin: %s' % r
    r, txt = native_check(exe, cex['key'], cex['scripts'], ob['idx'], ob)
    if r is None: return None, txt
    if r.get('want_address') is not None and r['address'] != r['want_address']:
        return True, 'real tap%s: address %s, bech32m of the tweaked key under the requested prefix is %s' % (' --addrprefix=' + bytes(ob['hrp']).decode() if ob.get('hrp') is not None else '', r['address'], r['want_address'])
    if ob['idx'] is None:
        r2, txt2 = native_check(exe, cex['key'], cex['scripts'], 0, ob)
        if r2 is None: return None, txt2
        return (r['address'] != r2['address']), 'real tap: address without selection %s, with leaf 0 selected %s' % (r['address'], r2['address'])
    if r.get('proof_ok') is False: return True, 'real tap: %s' % r
    # The solver's counterexample lives in a model of the hash functions (they are uninterpreted): the scripts it names need not have hashes in the relation
    # the model uses. Look for REAL scripts whose leaf hashes stand in such a relation - a common prefix of 1..4 bytes, in both orders of what follows - and
    # run the real binary on them; only a failure of the real binary on real inputs is reported.
    hit = hash_relation_probe(exe, cex['key'])
    if hit is not None: return True, 'the scripts of the solver model do not reproduce it (hash values are modelled), but real scripts whose leaf hashes share a prefix do: ' + hit
    return False, 'real tap: %s' % r

def hash_relation_probe(exe, key):
    import hashlib
    t = hashlib.sha256(b'TapLeaf').digest(); base = hashlib.sha256(t + t)
    seen = {1: {}, 2: {}, 3: {}, 4: {}}; pairs = {1: [], 2: [], 3: [], 4: []}
    for i in range(1 << 19):
        sc = i.to_bytes(3, 'little'); h = base.copy(); h.update(b'\xc0\x04\x03' + sc); d = h.digest()          # leaf script = push of the 3 payload bytes
        for p in (4, 3, 2, 1):
            o = seen[p].get(d[:p])
            if o is None: seen[p][d[:p]] = (sc, d)
            elif len(pairs[p]) < 6 and o[1][:p + 1] != d[:p + 1]: pairs[p].append((o[0], sc))
        if len(pairs[4]) >= 4: break
    for p in (4, 3, 2, 1):
        for a, b in pairs[p]:
            for scripts in ([list(a), list(b)], [list(b), list(a)]):
                base_r, _ = native_check(exe, key, scripts, None, raw=True)
                for idx in (0, 1):
                    r, txt = native_check(exe, key, scripts, idx, raw=True)
                    if r is None or base_r is None: continue
                    if r.get('proof_ok') is False or r['address'] != base_r['address']:
                        return 'tap %s 2 %s %s %d -> %r (leaf hashes share %d leading bytes)' % (bytes(key).hex(), bytes(scripts[0]).hex(), bytes(scripts[1]).hex(), idx, r, p)
    return None

def validate(E, lib):
    """the real tap binary on concrete inputs: every spending index must give the same address and a control block that an independent BIP341 fold accepts"""
    import random
    rnd = random.Random(6); n = 0
    exe = build_tap(os.path.dirname(lib._name))
    key = bytes.fromhex('f30544d6009c8d8d94f5d030b2e844b1a3ca036255161c479db1cca5b374dd1c')
    for cnt in (1, 2, 3, 5):
        scripts = [[rnd.randrange(256), rnd.randrange(256)] for _ in range(cnt)]
        base, _ = native_check(exe, key, scripts, None)
        if base is None: raise EncoderMismatch('tap failed natively: ' + _)
        for i in range(cnt):
            r, txt = native_check(exe, key, scripts, i)
            if r is None or r['address'] != base['address'] or not r.get('proof_ok'): raise NativeViolation('C06:native-proof', 'real tap: output does not verify under BIP341 (key %s, scripts %s, index %d): %r' % (key.hex(), scripts, i, r), dict(key=list(key), scripts=scripts, idx=i))
            n += 1
    F = dict(ver=[1, 0, 0, 0], lock=[0x10, 0x27, 0, 0], seq=[0xfd, 0xff, 0xff, 0xff], oval=list((12345).to_bytes(8, 'little')), amount=list((54321).to_bytes(8, 'little')))
    F['amount2'] = list((777).to_bytes(8, 'little'))
    for (cnt, idx, sig, fv) in ((1, None, 0, 0), (2, 1, 0, 0), (3, 2, 1, 0), (3, None, 1, 0), (1, None, 0, 1), (2, 0, 0, 2)):
        scripts = [[rnd.randrange(256), rnd.randrange(256)] for _ in range(cnt)]
        r, txt = native_taptx(exe, key, scripts, idx, F, sig, dict(fvout=fv))
        if r is None or not r['tx_ok'] or not r['sighash_ok']: raise NativeViolation('C06:native-sighash', 'real tap --tx/--txin: printed transaction / reported sighash do not match the BIP341 reference (scripts %s, index %s, sig %d): %r' % (scripts, idx, sig, r), dict(key=list(key), scripts=scripts, idx=idx, fields=F, sig=sig))
        n += 1
    return n
