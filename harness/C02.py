"""C02 - signature opcodes: opcode logic against the BIP rules with the cryptographic verdict as an uninterpreted oracle,
digest construction against the BIP143/BIP341 definitions over an uninterpreted SHA-256 compression, and the bookkeeping
(opcode position, code separator) the digest depends on."""
import z3
import stubs, sesslib, refscript as R, refexec
import C01 as base
import sighashlib
from irsym import is_sym
from core import mkres, EncoderMismatch

ID = 'C02'
TITLE = 'CHECKSIG/CHECKSIGVERIFY/CHECKMULTISIG(VERIFY)/CHECKSIGADD one-step differential with an uninterpreted signature oracle (encoding rules, flag-selected errors, in-order multisig matching, FindAndDelete, tapscript weight), opcode-position bookkeeping, HasValidOps domain'
TUS = base.TUS; SHIMS = base.SHIMS + ['sighash']; NATIVE_TUS = base.NATIVE_TUS
FUNCTIONS = ['GenericTransactionSignatureChecker<CTransaction>::CheckECDSASignature / CheckSchnorrSignature (hash type extraction, size rules, digest hand-over)', 'SignatureHash (legacy + BIP143)', 'CTransactionSignatureSerializer', 'SignatureHashSchnorr (BIP341/342)', 'PrecomputedTransactionData::Init', 'EvalChecksig', 'EvalChecksigPreTapscript', 'EvalChecksigTapscript', 'OP_CHECKMULTISIG loop', 'CheckSignatureEncoding', 'IsValidSignatureEncoding', 'IsDefinedHashtypeSignature', 'CheckPubKeyEncoding',
             'FindAndDelete', 'StepScript(InterpreterEnv&) opcode_pos', 'CScript::HasValidOps']
ASSUMPTIONS = base.ASSUMPTIONS + ['the ECDSA/Schnorr verdict is an uninterpreted function of (signature, key, scriptCode | leaf hash+code separator position, sigversion): holds for every checker, hence for the real one',
                                  'CPubKey::CheckLowS is an uninterpreted predicate of the signature bytes', 'elliptic-curve arithmetic of libsecp256k1 and the lax DER parser are outside the claim']
OUTSIDE = ['signatures longer than 10 bytes other than the 71/72/73-byte DER sizes', 'more than 3 keys except the 20/21 boundary', 'digests: transactions with more than 2 inputs / 2 outputs (3 in thorough), scripts longer than 3 bytes', 'ECDSA / Schnorr verification itself (uninterpreted functions of key, digest, signature)']
BOUNDS = {'quick': 'sig lengths {0,1,8,9,10}, key lengths {0,1,32,33,65}; multisig n-of-m for m<=2 (+ key counts 20/21 with empty keys); scriptCode tail of 0/2/3 bytes (FindAndDelete pattern may match); flags, nOpCount, weight, code separator position, leaf hash symbolic',
          'thorough': 'as quick plus sig lengths 71..73, m<=3'}

def setup(E):
    base.setup(E); stubs.install_oracle_uf(E)
    def checklows(E, st, fr, I, A):
        v = A[0]; b = E.load(st, v, 8); e = E.load(st, v + 8, 8)
        if is_sym(b) or is_sym(e): raise Exception('symbolic vector')
        bs = [E.load(st, b + i, 1) for i in range(e - b)]
        return stubs.b2i(R.lows(bs), 1) if bs else 0
    E.stubs['_ZN7CPubKey9CheckLowSERKSt6vectorIhSaIhEE'] = checklows
    sighashlib.install_checker_stubs(E)

def obligations(tier, seed):
    obs = []
    def add(**kw):
        kw.setdefault('vf', (0, None)); kw.setdefault('tail', 0); kw.setdefault('mode', 0); kw.setdefault('cvals', {}); kw.setdefault('kind', 'sigop')
        kw['name'] = 'sigop/op%02x/sv%d/st%s/vf%d-%s/tail%d/m%d%s' % (kw['op'], kw['sv'], '.'.join(map(str, kw['lens'])), kw['vf'][0], kw['vf'][1], kw['tail'], kw['mode'],
                                                                  ''.join('/c%s=%s' % (k, bytes(v).hex()) for k, v in kw['cvals'].items()))
        obs.append(kw)
    SIGL = (0, 1, 8, 9, 10) if tier == 'quick' else (0, 1, 8, 9, 10, 71, 72, 73)
    KEYL = (0, 1, 32, 33, 65)
    for sv in (R.BASE, R.WITNESS_V0, R.TAPROOT, R.TAPSCRIPT):
        for o in (0xac, 0xad):
            for sl in SIGL:
                for kl in KEYL:
                    if tier == 'quick' and sl in (8, 10) and kl in (1, 65): continue
                    add(op=o, sv=sv, lens=(sl, kl))
            add(op=o, sv=sv, lens=(33,)); add(op=o, sv=sv, lens=()); add(op=o, sv=sv, lens=(1, 9, 33))
            add(op=o, sv=sv, lens=(9, 33), vf=(1, 0)); add(op=o, sv=sv, lens=(9, 33), mode=1)
            if sv == R.BASE:
                for tail in (2, 3): add(op=o, sv=sv, lens=(1, 33), tail=tail)       # FindAndDelete of the 1-byte signature push in the script tail
                add(op=o, sv=sv, lens=(0, 33), tail=1)
        # CHECKSIGADD
        for sl in (0, 1, 64, 65):
            for kl in (0, 1, 32, 33):
                for nl in (0, 1, 4, 5):
                    if tier == 'quick' and (nl in (4, 5)) and not (sl == 64 and kl == 32): continue
                    add(op=0xba, sv=sv, lens=(sl, nl, kl))
        add(op=0xba, sv=sv, lens=(1, 1)); add(op=0xba, sv=sv, lens=(64, 1, 32), vf=(1, 0)); add(op=0xba, sv=sv, lens=(64, 1, 32), mode=1)
        # CHECKMULTISIG: stack = dummy, sigs..., nsigs, keys..., nkeys  (count items concrete or one symbolic byte)
        for o in (0xae, 0xaf):
            if sv in (R.TAPSCRIPT, R.TAPROOT):
                add(op=o, sv=sv, lens=(0, 9, 1, 33, 1), cvals={'2': [1], '4': [1]}); continue
            shapes = []
            for (m, n) in ((0, 0), (0, 1), (1, 1), (1, 2), (2, 2)) + (((0, 2), (1, 3), (2, 3), (3, 3)) if tier != 'quick' else ()):
                for sl in (((0, 9) if m < 2 else (0, 1)) if tier == 'quick' else ((0, 1, 9) if m < 3 else (0, 1))):          # 3-of-3 with three 9-byte symbolic signatures: > 1800 s under load
                    for dl in (0, 1):
                        lens = tuple([dl] + [sl] * m + [1] + [33] * n + [1])
                        cv = {str(1 + m): [m] if m else [], str(2 + m + n): [n] if n else []}
                        shapes.append((lens, cv))
            for lens, cv in shapes: add(op=o, sv=sv, lens=lens, cvals=cv)
            # symbolic count bytes (all values: negative, > 20, > stack) on a small stack
            add(op=o, sv=sv, lens=(0, 9, 1, 33, 1)); add(op=o, sv=sv, lens=(0, 1, 33, 1), cvals={'1': []})
            add(op=o, sv=sv, lens=(1,)); add(op=o, sv=sv, lens=()); add(op=o, sv=sv, lens=(5,)); add(op=o, sv=sv, lens=(0, 0, 0), cvals={})
            add(op=o, sv=sv, lens=(0, 0, 33, 1), cvals={'1': [], '3': [1]}, vf=(1, 0))
            # key-count boundary 20 / 21 and its op-count charge (nOpCount symbolic)
            for nk in (19, 20, 21):
                add(op=o, sv=sv, lens=tuple([0, 0] + [0] * nk + [1]), cvals={'1': [], str(2 + nk): [nk]})
            add(op=o, sv=sv, lens=(0, 9, 1, 33, 1), cvals={'2': [1], '4': [1]}, tail=2 if sv == R.BASE else 0, mode=1)
            if sv == R.BASE:
                # FindAndDelete in multisig: ALL signatures are removed from the script code before the first one is checked (seed C02-6 removed each one only when it was tried);
                # the tail holds one or two one-byte pushes that may equal either signature
                for tail in (2, 4):
                    add(op=o, sv=sv, lens=(0, 1, 1, 1, 33, 33, 1), cvals={'3': [2], '6': [2]}, tail=tail)
                add(op=o, sv=sv, lens=(0, 1, 1, 1, 33, 33, 33, 1), cvals={'3': [2], '7': [3]}, tail=2)
    # opcode position bookkeeping at the debugger level: every successful step advances opcode_pos by one; OP_CODESEPARATOR records its own position
    for sv in (R.BASE, R.WITNESS_V0, R.TAPSCRIPT):
        for o in (0x51, 0x00, 0x61, 0xab, 0x76, 0x63, 0x68, 0x02):
            for vf in ((0, None), (1, 0)):
                obs.append(dict(kind='opos', name='opos/op%02x/sv%d/vf%d-%s' % (o, sv, vf[0], vf[1]), op=o, sv=sv, vf=vf))
    # the same bookkeeping when the script is run to the end in one go (ContinueScript, the non-interactive path): OP_CODESEPARATOR as the SECOND operation
    # executed must record position start+1 (seed C08-6: the run-to-completion loop did not advance the counter)
    for sv in (R.WITNESS_V0, R.TAPSCRIPT):
        for nb in (1, 2): obs.append(dict(kind='oposc', name='opos/continue/sv%d/codesep-after-%d-ops' % (sv, nb), sv=sv, nb=nb))
    for o in range(0xb0, 0x100): obs.append(dict(kind='validops', name='validops/op%02x' % o, op=o))
    for L in (1, 2, 3): obs.append(dict(kind='validops', name='validops/sym%d' % L, op=None, L=L))
    obs += sighashlib.obligations(tier)
    return obs

def build(ob, V=None):
    sym = V is None
    def var(n, bits): return z3.BitVec(n, bits) if sym else V.get(n, 0)
    o = ob['op']
    stack = [[var('s%d_%d' % (i, j), 8) for j in range(L)] for i, L in enumerate(ob['lens'])]
    for k, bs in ob['cvals'].items(): stack[int(k)] = list(bs)
    tail = [var('tl%d' % i, 8) for i in range(ob['tail'])]
    if ob['tail'] >= 2: tail[0] = 0x01             # a one-byte push in the tail: may equal the signature push (FindAndDelete)
    if ob['tail'] == 1: tail[0] = 0x00             # OP_0 in the tail equals the push of an empty signature
    if ob['tail'] == 3: tail[2] = 0x61
    if ob['tail'] == 4: tail[2] = 0x01             # two one-byte pushes
    script = [0x61, o] + tail
    flags = var('flags', 32); nop = var('nop', 32); weight = var('weight', 64); csep = var('csep', 32); opos = var('opos', 32)
    leaf = [var('leaf%d' % i, 8) for i in range(32)]
    assume = [z3.ULE(nop, 201), z3.ULT(opos, 1 << 20)] if sym else []
    pbch = 1 if ob['tail'] == 3 else 0
    pre = dict(alt=[], vf=ob['vf'], nop=nop, pc=1, pbch=pbch, opcode_pos=opos, codesep=csep, weight=weight, leaf=leaf, curr_op_seq=3, hist=[([[7]], [], 0, 5)] if ob['mode'] == 1 else [])
    req = sesslib.sess_request(ob['mode'], flags, ob['sv'], stack, script, 0, 2, (0, 0, 0), pre)
    S = R.RS(stack=stack, alt=[], vf_size=ob['vf'][0], vf_ff=ob['vf'][1], nop=nop, flags=flags, sigversion=ob['sv'], script=script, pc=1, pbch=pbch, codesep_pos=csep, opcode_pos=opos, weight=weight, leaf=leaf)
    inputs = dict(flags=flags, nop=nop, weight=weight, csep=csep, opos=opos, leaf=leaf, stack=stack, tail=tail)
    return req, S, inputs, assume

def impl_outcome(rep, mode):
    p = rep['post']
    if rep['threw']: return dict(ok=0, err=R.EXC)
    if not rep['ret']: return dict(ok=0, err=p['err'])
    return dict(ok=1, stack=p['stack'], alt=p['alt'], vf=p['vf'], nop=p['nop'], pc=p['pc'], pbch=p['pbch'], codesep=p['codesep'], weight=p['weight'])

def key_fn(ob):
    def k(io, ro):
        what = 'crash:' + str(io[1]) if isinstance(io, (tuple, list)) else ('outcome' if io.get('ok') != ro.get('ok') else ('error-code' if not io.get('ok') else 'state'))
        return 'C02:%s:sv%d:%s' % (R.NAME.get(ob['op'], 'op'), ob['sv'], what)
    return k

def run(E, ob):
    if ob['kind'] in ('sighash', 'schnorr', 'checker'): return sighashlib.run(E, ob)
    if ob['kind'] == 'opos': return run_opos(E, ob)
    if ob['kind'] == 'oposc': return run_oposc(E, ob)
    if ob['kind'] == 'validops': return run_validops(E, ob)
    req, S, inputs, assume = build(ob)
    out, fin = sesslib.engine_call(E, req, assume=assume)
    def io(f): return impl_outcome(sesslib.engine_reply(E, f, out, ob['mode']), ob['mode'])
    def on_model(res, m, f): pass
    res = sesslib.diff_paths(E, ob['name'], fin, io, lambda ctx: R.ref_sigop(ctx, S), assume, inputs, key_fn(ob))
    return res

# ---- opcode position
def opos_req(ob, V=None):
    def var(n, bits): return z3.BitVec(n, bits) if V is None else V.get(n, 0)
    o = ob['op']; opos = var('opos', 32); csep = var('csep', 32); flags = var('flags', 32)
    script = [0x61, o] + ([var('p0', 8), var('p1', 8)] if o == 0x02 else []) + [0x51]
    k = base.ARITY.get(o, 0)
    stack = [[var('s%d' % i, 8)] for i in range(k)]
    pre = dict(alt=[], vf=ob['vf'], nop=0, pc=1, pbch=0, opcode_pos=opos, codesep=csep, weight=0, curr_op_seq=1, hist=[])
    return sesslib.sess_request(1, flags, ob['sv'], stack, script, 0, 0, (0, 0, 0), pre), dict(opos=opos, csep=csep, flags=flags, stack=stack), ([z3.ULT(opos, 1 << 20)] if V is None else [])

def run_opos(E, ob):
    req, inputs, assume = opos_req(ob)
    out, fin = sesslib.engine_call(E, req, assume=assume)
    def io(f):
        rep = sesslib.engine_reply(E, f, out, 1)
        if rep['threw'] or not rep['ret']: return dict(ok=0)
        return dict(ok=1, opos=rep['post']['opcode_pos'], csep=rep['post']['codesep'])
    def ref(ctx):
        # BIP342: the code separator position is the index of the last executed OP_CODESEPARATOR, counting every decoded opcode; so the
        # session must have advanced its opcode counter by exactly one for each operation stepped over (executed or not)
        executed_sep = ob['op'] == 0xab and ob['vf'][1] is None and not (ob['sv'] == R.BASE)
        csep = inputs['opos'] if (ob['op'] == 0xab and ob['vf'][1] is None) else inputs['csep']
        if ob['op'] == 0xab and ob['sv'] == R.BASE and ctx.branch(R.flag(inputs['flags'], 'CONST_SCRIPTCODE')): return dict(ok=0)
        return dict(ok='*', opos=z3.simplify(inputs['opos'] + 1), csep=csep)
    def io2(f):
        o = io(f)
        return o if o['ok'] else dict(ok=0, opos='*', csep='*')
    def ref2(ctx):
        r = ref(ctx)
        return r if r['ok'] else dict(ok=0, opos='*', csep='*')
    # failed steps are not compared (ok wildcard): compare only when the implementation step succeeded
    res = sesslib.diff_paths(E, ob['name'], [f for f in fin], lambda f: (lambda o: o if o['ok'] else dict(ok='*', opos='*', csep='*'))(io(f)), ref2, assume, inputs,
                             lambda a, b: 'C02:opcode_pos:%s' % ('codesep' if ob['op'] == 0xab else 'advance'))
    return res

def oposc_req(ob, V=None):
    def var(n, bits): return z3.BitVec(n, bits) if V is None else V.get(n, 0)
    opos = var('opos', 32); csep = var('csep', 32); flags = var('flags', 32)
    script = [0x61] + [0x61] * ob['nb'] + [0xab, 0x51]
    pre = dict(alt=[], vf=(0, None), nop=0, pc=1, pbch=0, opcode_pos=opos, codesep=csep, weight=0, curr_op_seq=1, hist=[])
    return sesslib.sess_request(3, flags, ob['sv'], [], script, 0, 0, (0, 0, 0), pre), dict(opos=opos, csep=csep, flags=flags), ([z3.ULT(opos, 1 << 20)] if V is None else [])

def run_oposc(E, ob):
    req, inputs, assume = oposc_req(ob)
    out, fin = sesslib.engine_call(E, req, assume=assume)
    def io(f):
        rep = sesslib.engine_reply(E, f, out, 3)
        if rep['threw'] or not rep['ret']: return dict(ok='*', csep='*')          # runs refused for other reasons (flags) are not this obligation's subject
        return dict(ok=1, csep=rep['post']['codesep'])
    def ref(ctx): return dict(ok=1, csep=z3.simplify(inputs['opos'] + ob['nb']))
    return sesslib.diff_paths(E, ob['name'], fin, io, ref, assume, inputs, lambda a, b: 'C02:opcode_pos:codesep-continue')

# ---- HasValidOps domain
def run_validops(E, ob):
    import hlib
    if ob['op'] is not None:
        script = [ob['op']]; inputs = {}; assume = []
    else:
        script = [z3.BitVec('b%d' % i, 8) for i in range(ob['L'])]; inputs = dict(script=script)
        assume = [z3.UGT(script[0], 0x4e)] + ([z3.UGT(b, 0x4e) for b in script[1:]])       # non-push opcodes only (push decoding is C01's)
    def io(E_, f, ret, outs):
        if ret is None: return ('crash', f.result[1] if f.result else 'none', '')
        return dict(valid=ret)
    def ref(ctx):
        # the debugger's domain: scripts made of defined opcodes (C01), which includes OP_CHECKSIGADD (C02); anything above is refused
        ok = True
        for b in script:
            if not ctx.branch(z3.ULE(R.B(b), 0xba)): ok = False; break
        return dict(valid=1 if ok else 0)
    return hlib.flat_check(E, ob['name'], 'w_has_valid_ops', [('in', script), ('u32', len(script))], io, ref, assume, inputs, lambda a, b: 'C02:HasValidOps:0xba' )

def concrete(ob, cex):
    V = dict(flags=cex.get('flags', 0), nop=cex.get('nop', 0), weight=cex.get('weight', 0), csep=cex.get('csep', 0), opos=cex.get('opos', 0))
    for i, b in enumerate(cex.get('leaf', [])): V['leaf%d' % i] = b
    for i, it in enumerate(cex.get('stack', [])):
        for j, b in enumerate(it): V['s%d_%d' % (i, j)] = b; V['s%d' % i] = b
    for i, b in enumerate(cex.get('tail', [])): V['tl%d' % i] = b
    return V

def replay(lib, ob, cex):
    if ob['kind'] in ('sighash', 'schnorr', 'checker'): return sighashlib.replay(lib, ob, cex)
    if ob['kind'] == 'validops':
        import hlib
        script = [ob['op']] if ob['op'] is not None else cex['script']
        ret, _ = hlib.spec_native(lib, 'w_has_valid_ops', [('in', script), ('u32', len(script))])
        want = 1 if all(b <= 0xba for b in script) else 0
        return ret != want, 'native HasValidOps(%s) = %d, expected %d' % (bytes(script).hex(), ret, want)
    V = concrete(ob, cex)
    if ob['kind'] == 'opos':
        req, inputs, _ = opos_req(ob, V)
        rep = sesslib.native_call(lib, req, 1)
        if not rep['ret']: return False, 'native step failed'
        p = rep['post']; want = (V['opos'] + 1) & 0xffffffff
        wantc = V['opos'] if (ob['op'] == 0xab and ob['vf'][1] is None) else V['csep']
        return (p['opcode_pos'] != want or p['codesep'] != wantc), 'native: opcode_pos %d -> %d (expected %d), codeseparator pos %d (expected %d)' % (V['opos'], p['opcode_pos'], want, p['codesep'], wantc)
    if ob['kind'] == 'oposc':
        req, inputs, _ = oposc_req(ob, V)
        rep = sesslib.native_call(lib, req, 3)
        if not rep['ret']: return False, 'native run failed'
        want = (V['opos'] + ob['nb']) & 0xffffffff
        return rep['post']['codesep'] != want, 'native ContinueScript: code separator position %d recorded, expected %d (start %d, %d operations before it)' % (rep['post']['codesep'], want, V['opos'], ob['nb'])
    req, S, inputs, _ = build(ob, V)
    # oracle table: evaluate the counterexample's oracle applications
    rep = sesslib.native_call(lib, req, ob['mode'], oracle=cex.get('_oracle', []))
    io = impl_outcome(rep, ob['mode'])
    return None, 'native: %s (oracle-dependent; compare with the reference by hand)' % sesslib.short(io)

def validate(E, lib): return base.validate(E, lib) + sighashlib.validate(E, lib)
