"""C04 - rewind exactly undoes steps: step;rewind from an arbitrary session state restores the complete state."""
import z3
import stubs, sesslib, refscript as R, refexec
import C01 as base
from irsym import is_sym
from core import mkres, EncoderMismatch
import build as _b

ID = 'C04'
TITLE = 'step;rewind identity on the complete session state (StepScript(InterpreterEnv&)/RewindScript and Instance::step/rewind) from an arbitrary pre-state, every opcode; refused rewinds change nothing'
TUS = base.TUS; SHIMS = base.SHIMS; NATIVE_TUS = base.NATIVE_TUS
FUNCTIONS = ['StepScript(InterpreterEnv&)', 'RewindScript(InterpreterEnv&)', 'Instance::step', 'Instance::rewind', 'Instance::at_start', 'StepScript(ScriptExecutionEnvironment&,...)']
ASSUMPTIONS = base.ASSUMPTIONS + ['signature checks answer through an uninterpreted oracle (any answer, functionally consistent)',
                                  'one-step identity from an arbitrary state gives the identity for every interleaving by induction on the history length (only steps that succeed are followed by a rewind)']
OUTSIDE = ['k steps then j rewinds for k,j > 1 are covered by the induction argument, not explored', 'stack deeper than arity+1, operands longer than 4 bytes']
BOUNDS = 'every opcode byte x {BASE, WITNESS_V0, TAPSCRIPT}; stack = arity (+1) items of 1 byte (numeric ops: values symbolic); pre-state nOpCount/opcode_pos/codeseparator pos/validation weight/curr_op_seq symbolic; vfExec shapes (0),(1),(1,ff0),(2,ff1); history depth 1 (symbolic content); end-of-script transitions: plain end, successor script, P2SH redeem script'

def setup(E):
    base.setup(E); stubs.install_oracle(E)

FIELDS = ['stack', 'alt', 'vf', 'nop', 'pc', 'pbch', 'pend', 'opcode_pos', 'codesep', 'weight', 'curr_op_seq', 'done', 'script', 'p2sh', 'successor', 'hist', 'hist_top', 'tce']

def obligations(tier, seed):
    obs = []
    def add(**kw):
        kw.setdefault('vf', (0, None)); kw.setdefault('mode', 2); kw.setdefault('alt', 1); kw.setdefault('end', None); kw.setdefault('checker', 0)
        kw['name'] = 'op%02x/sv%d/st%s/vf%s/m%d/%s' % (kw['op'], kw['sv'], '.'.join(map(str, kw['lens'])), '%d-%s' % kw['vf'], kw['mode'], kw['end'] or '')
        obs.append(kw)
    for sv in (R.BASE, R.WITNESS_V0, R.TAPSCRIPT):
        for o in range(256):
            if sv == R.TAPSCRIPT and R.is_op_success(o): continue
            if tier == 'quick' and 0x02 <= o <= 0x4b and o not in (0x02, 0x20, 0x4b): continue
            k = base.ARITY.get(o, 0)
            ck = 0
            if o in R.SIGOPS:
                k = {0xac: 2, 0xad: 2, 0xba: 3}.get(o, 5); ck = 2
            lens = tuple([1] * k)
            if o in (0xae, 0xaf): lens = (0, 1, 1, 1, 1)          # dummy, sig, nsigs, key, nkeys
            for mode in (2, 5):
                add(op=o, sv=sv, lens=lens, mode=mode, checker=ck)
            if o in base.CONTROL or o in (0xab, 0x6b, 0x6c):
                for vf in [(1, None), (1, 0), (2, 1)]:
                    add(op=o, sv=sv, lens=lens, vf=vf, mode=5, checker=ck)
        for end in ('plain', 'plain-vf', 'succ', 'succ-p2sh', 'p2sh'):
            add(op=0x61, sv=sv, lens=(1,), mode=5, end=end)
            add(op=0x61, sv=sv, lens=(1,), mode=7, end=end)
        add(op=0x61, sv=sv, lens=(1,), mode=7, end='start')
    return obs

def build(ob, V=None):
    sym = V is None
    def var(n, bits): return z3.BitVec(n, bits) if sym else V.get(n, 0)
    o = ob['op']
    stack = [[var('s%d_%d' % (i, j), 8) for j in range(L)] for i, L in enumerate(ob['lens'])]
    if o in (0xae, 0xaf): stack[2] = [1]; stack[4] = [1]          # 1-of-1 multisig shape
    alt = [[var('a%d' % i, 8)] for i in range(ob['alt'])]
    script = [0x51, o]
    if o <= 0x4e:
        n = o if o < 0x4c else 1
        script += {0x4c: [1], 0x4d: [1, 0], 0x4e: [1, 0, 0, 0]}.get(o, []) + [var('pl%d' % i, 8) for i in range(n)]
    script += [0x51]
    pc = 1
    end = ob['end']
    p2shstack = []; succ = []; p2sh = 2; done = 0
    if end:
        pc = len(script)                  # at end of script
        if end == 'start': pc = 0
        if end in ('succ', 'succ-p2sh'):
            succ = [0xa9, 0x14] + [var('h%d' % i, 8) for i in range(20)] + [0x87] if end == 'succ-p2sh' else [0x76, 0x51]
        if end == 'p2sh':
            p2sh = 1; p2shstack = [[var('q0', 8)], [0x51, 0x52]]
            script = [0xa9, 0x14] + [var('h%d' % i, 8) for i in range(20)] + [0x87]; pc = len(script)
            stack = [[1]]
    vf = ob['vf']
    if end == 'plain-vf': vf = (1, None)
    flags = var('flags', 32)
    pre = dict(alt=alt, vf=vf, nop=var('nop', 32), pc=pc, pbch=0 if ob['op'] % 2 else (pc if not end else 0), opcode_pos=var('opos', 32), codesep=var('csep', 32), weight=var('weight', 64),
               curr_op_seq=var('seq', 32), done=done, p2sh=p2sh, p2shstack=p2shstack, successor=succ,
               hist=[([[var('h_s', 8)]], [[var('h_a', 8)]], 0, var('h_n', 32))], leaf=[var('leaf%d' % i, 8) for i in range(32)] if ob['sv'] == R.TAPSCRIPT else [])
    assume = []
    if sym: assume = [z3.ULE(pre['nop'], 201), z3.ULT(pre['curr_op_seq'], 1 << 30), z3.ULT(pre['hist'][0][3], 202), pre['weight'] >= 0, z3.ULT(pre['opcode_pos'], 1 << 20)]
    req = sesslib.sess_request(ob['mode'], flags, ob['sv'], stack, script, 0, ob['checker'], (2, 0, 0), pre)
    inputs = dict(flags=flags, stack=stack, alt=alt, script=script, nop=pre['nop'], opos=pre['opcode_pos'], csep=pre['codesep'], weight=pre['weight'], seq=pre['curr_op_seq'],
                  h_s=pre['hist'][0][0][0][0], h_a=pre['hist'][0][1][0][0], h_n=pre['hist'][0][3])
    return req, inputs, assume

def state_of(d): return {k: d.get(k) for k in FIELDS}

def impl_outcome(rep, ob):
    mode = ob['mode']
    if mode == 7:
        # rewind alone: either refused (nothing changes) or accepted
        return dict(kind='rewind-only', refused=1 - rep['rew_ret'] if not is_sym(rep['rew_ret']) else rep['rew_ret'], after=state_of(rep['rew']))
    if is_sym(rep['ret']): raise Exception('symbolic step result')
    if rep['threw'] or not rep['ret']: return dict(kind='step-failed')
    if 'rew' not in rep: return dict(kind='no-rewind')
    if not rep['rew_ret']: return dict(kind='refused', after=state_of(rep['rew']), stepped=state_of(rep['post']))
    return dict(kind='rewound', after=state_of(rep['rew']))

def run(E, ob):
    req, inputs, assume = build(ob)
    out, fin = sesslib.engine_call(E, req, assume=assume)
    res = mkres(ob['name'], paths=len(fin))
    V = refexec.Verdict(); classes = {}
    for f in fin:
        if f.result is None or f.result[0] != 'ret':
            io = ('crash', f.result[1] if f.result else 'none', f.result[2] if f.result and len(f.result) > 2 else ''); rep = None
        else:
            rep = sesslib.engine_reply(E, f, out, ob['mode']); io = impl_outcome(rep, ob)
        c = io[0] + ':' + str(io[1]) if isinstance(io, tuple) else io['kind']; classes[c] = classes.get(c, 0) + 1
        if V.status == 'violated': continue
        if isinstance(io, tuple): want = dict(kind='no-crash')
        elif io['kind'] == 'rewound': want = dict(kind='rewound', after=state_of(rep['pre'] if ob['mode'] == 2 else pre_of(E, f, out, ob, rep)))
        elif io['kind'] == 'refused': want = dict(kind='refused', after=io['stepped'], stepped=io['stepped'])
        elif io['kind'] == 'rewind-only':
            # a refused rewind changes nothing; an accepted one is checked by the step;rewind obligations
            want = dict(kind='rewind-only', refused=io['refused'], after=io['after'] if not io['refused'] else state_of(pre_only(ob)))
            if not io['refused']: continue
        else: continue
        def on_sat(m, io_, ro_, f=f):
            res['cex'] = sesslib.concretize(m, inputs)
            if f.aux.get('oracle'): res['cex']['_oracle'] = sesslib.concretize(m, [[list(a[0:1]) + [list(a[1]), list(a[2]), list(a[3]), a[4]], v] for a, v in f.aux['oracle']])
            a = sesslib.concretize(m, io_); b = sesslib.concretize(m, ro_)
            diff = [k for k in FIELDS if isinstance(a, dict) and 'after' in a and refexec.differs(a['after'].get(k), b['after'].get(k)) is not False] if isinstance(a, dict) else ['crash']
            res['note'] = 'fields not restored: %s | after: %s | expected: %s' % (diff, sesslib.short({k: a['after'][k] for k in diff} if diff != ['crash'] else a), sesslib.short({k: b['after'][k] for k in diff} if diff != ['crash'] else b))
            res['key'] = 'C04:%s:%s:%s' % (a['kind'] if isinstance(a, dict) else 'crash', ob['end'] or R.NAME.get(ob['op'], 'op%02x' % ob['op']), '+'.join(diff))
        refexec.decide(list(f.pc), io, [([], want)], V, E.query_timeout_ms, on_sat)
    res['classes'] = classes; res['status'] = V.status; res['queries'] = V.queries; res['sat'] = V.sat; res['unsat'] = V.unsat; res['unknown'] = V.unknown; res['solver_s'] = V.time; res['ref_cases'] = 1
    if not fin: res['status'] = 'inconclusive'; res['note'] = 'no path'
    return res

_PRE = {}
def pre_of(E, f, out, ob, rep):
    """mode 5 has no pre-dump in the reply: the expected state is the request itself"""
    return pre_only(ob)

def pre_only(ob, V=None):
    """the pre-state as the dump would print it, built from the request (independent of the implementation)"""
    req, inputs, assume = build(ob, V)
    # reconstruct from build(): same variable names => same terms
    import copy
    sym = V is None
    def var(n, bits): return z3.BitVec(n, bits) if sym else V.get(n, 0)
    o = ob['op']
    st = dict(stack=inputs['stack'], alt=inputs['alt'], nop=inputs['nop'], opcode_pos=inputs['opos'], codesep=inputs['csep'], weight=inputs['weight'], curr_op_seq=inputs['seq'], script=inputs['script'])
    end = ob['end']
    vf = ob['vf']
    if end == 'plain-vf': vf = (1, None)
    st['vf'] = (vf[0], vf[0] if vf[1] is None else vf[1])
    pc = 1
    if end: pc = len(inputs['script'])
    if end == 'start': pc = 0
    st['pc'] = pc; st['pbch'] = 0 if ob['op'] % 2 else (pc if not end else 0); st['pend'] = len(inputs['script']); st['done'] = 0
    st['p2sh'] = 1 if end == 'p2sh' else 0
    st['successor'] = ([0xa9, 0x14] + [var('h%d' % i, 8) for i in range(20)] + [0x87] if end == 'succ-p2sh' else [0x76, 0x51]) if end in ('succ', 'succ-p2sh') else []
    st['hist'] = 1; st['hist_top'] = dict(stack=[[inputs['h_s']]], alt=[[inputs['h_a']]], pc=0, nop=inputs['h_n']); st['tce'] = 0
    return st

def replay(lib, ob, cex):
    V = {}
    for i, it in enumerate(cex['stack']):
        for j, b in enumerate(it): V['s%d_%d' % (i, j)] = b
    for i, it in enumerate(cex['alt']): V['a%d' % i] = it[0]
    V.update(flags=cex['flags'], nop=cex['nop'], opos=cex['opos'], csep=cex['csep'], weight=cex['weight'], seq=cex['seq'], h_s=cex['h_s'], h_a=cex['h_a'], h_n=cex['h_n'])
    req, inputs, _ = build(ob, V)
    # script payload / hash bytes are part of cex['script']; rebuild request with the concrete script
    rep = sesslib.native_call(lib, req, ob['mode'], oracle=cex.get('_oracle', []))
    io = impl_outcome(rep, ob)
    if io['kind'] == 'rewound':
        want = state_of(rep['pre']) if ob['mode'] == 2 else state_of(pre_only(ob, V))
        diff = [k for k in FIELDS if refexec.differs(io['after'].get(k), want.get(k)) is not False]
        return bool(diff), 'native step;rewind: fields not restored: %s (after rewind %s, before step %s)' % (diff, sesslib.short({k: io['after'][k] for k in diff}), sesslib.short({k: want[k] for k in diff}))
    if io['kind'] == 'refused':
        diff = [k for k in FIELDS if refexec.differs(io['after'].get(k), io['stepped'].get(k)) is not False]
        return bool(diff), 'native refused rewind changed: %s' % diff
    if io['kind'] == 'rewind-only' and io['refused']:
        want = state_of(pre_only(ob, V)); diff = [k for k in FIELDS if refexec.differs(io['after'].get(k), want.get(k)) is not False]
        return bool(diff), 'native refused rewind changed: %s' % diff
    return False, 'native outcome %s' % io['kind']

def validate(E, lib):
    n = 0
    for ob in [o for o in obligations('quick', 0) if o['sv'] == 0 and o['op'] in (0x51, 0x63, 0x76, 0x93, 0xab, 0x61, 0x6b)][:24]:
        V = dict(flags=0, nop=3, opos=2, csep=7, weight=100, seq=5, h_s=1, h_a=2, h_n=3, s0_0=1, s1_0=2, a0=9)
        req, inputs, _ = build(ob, V)
        nat = sesslib.native_call(lib, req, ob['mode'], oracle=[])
        out, fin = sesslib.engine_call(E, req)
        if len(fin) != 1 or fin[0].result[0] != 'ret': raise EncoderMismatch('engine concrete run: %r on %s' % ([f.result for f in fin], ob['name']))
        eng = sesslib.engine_reply(E, fin[0], out, ob['mode'])
        if refexec.differs(eng, nat) is not False: raise EncoderMismatch('engine != native on %s:\n%s\n%s' % (ob['name'], eng, nat))
        n += 1
    return n
