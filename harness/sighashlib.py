"""Digest-construction obligations of C02: SignatureHash (legacy, BIP143) and SignatureHashSchnorr (BIP341/342) against the BIP texts,
over an uninterpreted SHA-256 compression function; transactions built from symbolic bytes, hash type byte fully symbolic."""
import z3
import hlib, hashref, refscript as R, refexec, sesslib, stubs
from irsym import is_sym, bv, simp
from sesslib import Req
import C03

CS = hashref.compact_size

def obligations(tier):
    obs = []
    for (nin, nout) in ((1, 1), (2, 1), (1, 0), (2, 2), (1, 2)) if tier == 'quick' else ((1, 1), (2, 1), (1, 0), (2, 2), (1, 2), (3, 2), (2, 3)):
        for nIn in range(nin):
            for sv in (R.BASE, R.WITNESS_V0):
                obs.append(dict(kind='sighash', name='sighash/sv%d/in%dof%d/out%d' % (sv, nIn, nin, nout), sv=sv, nin=nin, nout=nout, nIn=nIn))
            for sv in (R.TAPROOT, R.TAPSCRIPT):
                for annex in (0, 1):
                    obs.append(dict(kind='schnorr', name='schnorr/sv%d/in%dof%d/out%d/annex%d' % (sv, nIn, nin, nout, annex), sv=sv, nin=nin, nout=nout, nIn=nIn, annex=annex))
    for (nin, nout) in ((1, 1), (2, 1)):
        for sv in (R.BASE, R.WITNESS_V0):
            for sl in (0, 1, 9):
                for kl in (0, 33, 65, 32): obs.append(dict(kind='checker', name='checker/sv%d/in0of%d/sig%d/key%d' % (sv, nin, sl, kl), sv=sv, nin=nin, nout=nout, nIn=0, sl=sl, kl=kl, annex=0))
        for sv in (R.TAPROOT, R.TAPSCRIPT):
            for sl in (0, 63, 64, 65, 66): obs.append(dict(kind='checker', name='checker/sv%d/in0of%d/sig%d/key32' % (sv, nin, sl), sv=sv, nin=nin, nout=nout, nIn=0, sl=sl, kl=32, annex=1 if sl == 65 else 0))
    return obs

ECDSA = {}
def ecdsa_uf(pub, digest, sig):
    key = (len(pub), len(sig))
    F = ECDSA.get(key)
    if F is None: F = z3.Function('ecdsa_verify_%d_%d' % key, z3.BitVecSort(8 * len(pub)), z3.BitVecSort(256), z3.BitVecSort(max(8 * len(sig), 1)), z3.BoolSort()); ECDSA[key] = F
    return F(stubs.cat([R.B(x) for x in pub], 8), stubs.cat([R.B(x) for x in digest], 8), stubs.cat([R.B(x) for x in sig], 8) if sig else z3.BitVecVal(0, 1))
SCHNORR_V = z3.Function('schnorr_verify_64', z3.BitVecSort(256), z3.BitVecSort(256), z3.BitVecSort(512), z3.BoolSort())

def install_checker_stubs(E):
    def verify(E, st, fr, I, A):
        this, hashp, sigv = A
        # CPubKey layout: 65 bytes vch; size from the header byte
        hdr = E.load(st, this, 1)
        if is_sym(hdr): n = 65 if E.feasible(st, z3.UGE(hdr, 4)) else 33          # the path already fixed the key class (IsValid), the exact header byte stays symbolic
        else: n = 33 if hdr in (2, 3) else (65 if hdr in (4, 6, 7) else 0)
        pub = stubs.rd(E, st, this, n); dg = stubs.rd(E, st, hashp, 32)
        b = E.load(st, sigv, 8); e = E.load(st, sigv + 8, 8); sig = stubs.rd(E, st, b, e - b) if e > b else []
        return stubs.b2i(ecdsa_uf(pub, dg, sig), 1)
    E.stubs['_ZNK7CPubKey6VerifyERK7uint256RKSt6vectorIhSaIhEE'] = verify
    def verify_schnorr(E, st, fr, I, A):
        this, msgp, sigp, siglen = A
        if is_sym(siglen) or siglen != 64: raise Exception('schnorr sig length')
        return stubs.b2i(SCHNORR_V(stubs.cat(stubs.rd(E, st, this, 32), 8), stubs.cat(stubs.rd(E, st, msgp, 32), 8), stubs.cat(stubs.rd(E, st, sigp, 64), 8)), 1)
    E.stubs['_ZNK11XOnlyPubKey13VerifySchnorrERK7uint2564SpanIKhE'] = verify_schnorr

def mk(ob, V=None):
    sym = V is None
    def var(n, bits=8): return z3.BitVec(n, bits) if sym else V.get(n, 0)
    def bs(n, k): return [var('%s%d' % (n, i)) for i in range(k)]
    ver = bs('ver', 4); lock = bs('lock', 4)
    ins = [(bs('ph%d_' % i, 32), bs('pn%d_' % i, 4), bs('ss%d_' % i, 2), bs('sq%d_' % i, 4), None) for i in range(ob['nin'])]
    outs = [(bs('ov%d_' % i, 8), bs('os%d_' % i, 3)) for i in range(ob['nout'])]
    full, stripped = C03.ser_tx(ver, ins, outs, lock)
    return dict(ver=ver, lock=lock, ins=ins, outs=outs, tx=full)

def ref_legacy(ctx, T, code, nIn, ht):
    """original (pre-segwit) signature hash"""
    ht32 = z3.ZeroExt(24, R.B(ht))
    base = R.B(ht) & 0x1f
    single = base == 3; none = base == 2; acp = (R.B(ht) & 0x80) != 0
    is_single = ctx.branch(single); is_none = False if is_single else ctx.branch(none); is_acp = ctx.branch(acp)
    if is_single and nIn >= len(T['outs']): return [1] + [0] * 31
    # scriptCode with OP_CODESEPARATOR removed
    sc = []; pc = 0
    while pc < len(code):
        d = R.decode_op(code, pc)
        if d is None: sc += code[pc:]; break
        o, payload, npc = d
        if o != 0xab: sc += code[pc:npc]
        pc = npc
    ser = list(T['ver'])
    idxs = [nIn] if is_acp else list(range(len(T['ins'])))
    ser += CS(len(idxs))
    for j in idxs:
        h, n, ss, sq, _ = T['ins'][j]
        ser += list(h) + list(n)
        ser += (CS(len(sc)) + sc) if j == nIn else [0]
        ser += [0, 0, 0, 0] if (j != nIn and (is_single or is_none)) else list(sq)
    if is_none: ser += [0]
    elif is_single:
        ser += CS(nIn + 1)
        for j in range(nIn + 1):
            if j == nIn: v, pk = T['outs'][j]; ser += list(v) + CS(len(pk)) + list(pk)
            else: ser += [0xff] * 8 + [0]
    else:
        ser += CS(len(T['outs']))
        for (v, pk) in T['outs']: ser += list(v) + CS(len(pk)) + list(pk)
    ser += list(T['lock'])
    ser += [z3.simplify(z3.Extract(8 * i + 7, 8 * i, ht32)) for i in range(4)]
    return hashref.hash256(ser)

def ref_bip143(ctx, T, code, nIn, ht, amount):
    ht32 = z3.ZeroExt(24, R.B(ht)); base = R.B(ht) & 0x1f
    is_acp = ctx.branch((R.B(ht) & 0x80) != 0); is_single = ctx.branch(base == 3); is_none = False if is_single else ctx.branch(base == 2)
    zero = [0] * 32
    prevouts = []; seqs = []; outs = []
    for (h, n, ss, sq, _) in T['ins']: prevouts += list(h) + list(n); seqs += list(sq)
    for (v, pk) in T['outs']: outs += list(v) + CS(len(pk)) + list(pk)
    hp = zero if is_acp else hashref.hash256(prevouts)
    hs = zero if (is_acp or is_single or is_none) else hashref.hash256(seqs)
    if not is_single and not is_none: ho = hashref.hash256(outs)
    elif is_single and nIn < len(T['outs']): v, pk = T['outs'][nIn]; ho = hashref.hash256(list(v) + CS(len(pk)) + list(pk))
    else: ho = zero
    h, n, ss, sq, _ = T['ins'][nIn]
    pre = list(T['ver']) + hp + hs + list(h) + list(n) + CS(len(code)) + list(code) + list(amount) + list(sq) + ho + list(T['lock']) + [z3.simplify(z3.Extract(8 * i + 7, 8 * i, ht32)) for i in range(4)]
    return hashref.hash256(pre)

def ref_bip341(ctx, T, spent, nIn, ht, sv, annex, annex_hash, leaf, codesep):
    b = R.B(ht)
    valid = z3.Or(z3.ULE(b, 3), z3.And(z3.UGE(b, 0x81), z3.ULE(b, 0x83)))
    if not ctx.branch(valid): return None
    is_acp = ctx.branch((b & 0x80) != 0)
    ot = b & 3
    is_single = ctx.branch(ot == 3); is_none = False if is_single else ctx.branch(ot == 2)
    msg = [0, z3.simplify(b)] + list(T['ver']) + list(T['lock'])
    if not is_acp:
        prevouts = []; amts = []; spks = []; seqs = []
        for (h, n, ss, sq, _) in T['ins']: prevouts += list(h) + list(n); seqs += list(sq)
        for (v, pk) in spent: amts += list(v); spks += CS(len(pk)) + list(pk)
        msg += hashref.sha256(prevouts) + hashref.sha256(amts) + hashref.sha256(spks) + hashref.sha256(seqs)
    if not is_single and not is_none:
        outs = []
        for (v, pk) in T['outs']: outs += list(v) + CS(len(pk)) + list(pk)
        msg += hashref.sha256(outs)
    ext = 1 if sv == R.TAPSCRIPT else 0
    msg += [ext * 2 + (1 if annex else 0)]
    h, n, ss, sq, _ = T['ins'][nIn]
    if is_acp:
        v, pk = spent[nIn]; msg += list(h) + list(n) + list(v) + CS(len(pk)) + list(pk) + list(sq)
    else: msg += list((nIn).to_bytes(4, 'little'))
    if annex: msg += list(annex_hash)
    if is_single:
        if nIn >= len(T['outs']): return None
        v, pk = T['outs'][nIn]; msg += hashref.sha256(list(v) + CS(len(pk)) + list(pk))
    if sv == R.TAPSCRIPT: msg += list(leaf) + [0] + list(codesep)
    return hashref.tagged(b'TapSighash', msg)

def prep(ob, V=None):
    sym = V is None
    def var(n, bits=8): return z3.BitVec(n, bits) if sym else V.get(n, 0)
    def bs(n, k): return [var('%s%d' % (n, i)) for i in range(k)]
    T = mk(ob, V); ht = var('ht'); nIn = ob['nIn']
    def crash(f): return ('crash', f.result[1] if f.result else 'none', f.result[2] if f.result and len(f.result) > 2 else '')
    if ob['kind'] == 'sighash':
        code = [0x51, 0xab, 0x52] if ob['sv'] == R.BASE else [0x51, 0xab, var('c2')]      # legacy removes OP_CODESEPARATOR: decoding needs concrete opcodes
        assume = []
        amount = bs('am', 8)
        r = Req(); r.bytes(T['tx']).bytes(code).u32(nIn).u32(z3.ZeroExt(24, ht) if sym else ht).u64(hlib.le(amount) if not sym else z3.Concat(*[R.B(x) for x in reversed(amount)])).u32(ob['sv'])
        def io(E, f, ret, outs):
            if ret is None: return crash(f)
            return dict(digest=outs[0](32))
        def ref(ctx):
            if ob['sv'] == R.BASE: return dict(digest=ref_legacy(ctx, T, code, nIn, ht))
            return dict(digest=ref_bip143(ctx, T, code, nIn, ht, amount))
        return 'w_sighash', [('in', r.b), ('out', 40)], io, ref, assume, dict(tx=T['tx'], ht=ht, code=code, amount=amount)
    if ob['kind'] == 'checker':
        spent = [(bs('sa%d_' % i, 8), bs('sp%d_' % i, 3)) for i in range(ob['nin'])]
        ah = bs('ah', 32); leaf = bs('lf', 32); cs = bs('cs', 4); amount = bs('am', 8)
        sig = bs('sg', ob['sl']); pub = bs('pk', ob['kl']); code = [0x51, 0xab, 0x52]
        assume = []
        if sym and ob['kl'] in (33, 65): assume.append(z3.ULE(pub[0], 7))          # header byte small: the key classes (2,3 | 4,6,7 | other) are explored by forking on it
        if sym: assume.append(z3.Extract(7, 7, R.B(amount[7])) == 0)               # non-negative amount (a negative amount means 'missing' for segwit v0)
        r = Req(); r.bytes(T['tx']).u32(len(spent))
        for (v, pk) in spent: r.u64(z3.Concat(*[R.B(x) for x in reversed(v)]) if sym else hlib.le(v)); r.bytes(pk)
        r.u32(nIn).u64(z3.Concat(*[R.B(x) for x in reversed(amount)]) if sym else hlib.le(amount)).u32(ob['sv']).bytes(sig).bytes(pub).bytes(code)
        r.u32(ob['annex']).bytes(ah).bytes(leaf).u32(z3.Concat(*[R.B(x) for x in reversed(cs)]) if sym else hlib.le(cs))
        def io(E, f, ret, outs):
            if ret is None: return crash(f)
            raw = outs[0](5); ok = raw[0]
            return dict(result=ok, err=hlib.le(raw[1:5]) if (ob['sv'] in (R.TAPROOT, R.TAPSCRIPT) and not is_sym(ok) and not ok) else '*')
        def ref(ctx):
            if ob['sv'] in (R.BASE, R.WITNESS_V0):
                if ob['kl'] == 33: okkey = ctx.branch(z3.Or(R.B(pub[0]) == 2, R.B(pub[0]) == 3))
                elif ob['kl'] == 65: okkey = ctx.branch(z3.Or(R.B(pub[0]) == 4, R.B(pub[0]) == 6, R.B(pub[0]) == 7))
                else: okkey = False
                if not okkey or ob['sl'] == 0: return dict(result=0, err='*')
                htb = sig[-1]
                dg = ref_legacy(ctx, T, code, nIn, htb) if ob['sv'] == R.BASE else ref_bip143(ctx, T, code, nIn, htb, amount)
                return dict(result=stubs.b2i(ecdsa_uf(pub, dg, sig[:-1]), 8), err='*')
            if ob['sl'] not in (64, 65): return dict(result=0, err=R.ERR('SCHNORR_SIG_SIZE'))
            htb = sig[64] if ob['sl'] == 65 else 0
            if ob['sl'] == 65 and ctx.branch(R.B(htb) == 0): return dict(result=0, err=R.ERR('SCHNORR_SIG_HASHTYPE'))
            dg = ref_bip341(ctx, T, spent, nIn, htb, ob['sv'], ob['annex'], ah, leaf, cs)
            if dg is None: return dict(result=0, err=R.ERR('SCHNORR_SIG_HASHTYPE'))
            if ctx.branch(SCHNORR_V(stubs.cat([R.B(x) for x in pub], 8), stubs.cat([R.B(x) for x in dg], 8), stubs.cat([R.B(x) for x in sig[:64]], 8))): return dict(result=1, err='*')
            return dict(result=0, err=R.ERR('SCHNORR_SIG'))
        return 'w_checker', [('in', r.b), ('out', 16)], io, ref, assume, dict(tx=T['tx'], sig=sig, pub=pub, amount=amount)
    spent = [(bs('sa%d_' % i, 8), bs('sp%d_' % i, 3)) for i in range(ob['nin'])]
    ah = bs('ah', 32); leaf = bs('lf', 32); cs = bs('cs', 4)
    r = Req(); r.bytes(T['tx']).u32(len(spent))
    for (v, pk) in spent: r.u64(hlib.le(v) if not sym else z3.Concat(*[R.B(x) for x in reversed(v)])); r.bytes(pk)
    r.u32(nIn).u32(z3.ZeroExt(24, ht) if sym else ht).u32(ob['sv']).u32(ob['annex']).bytes(ah).bytes(leaf).u32(hlib.le(cs) if not sym else z3.Concat(*[R.B(x) for x in reversed(cs)]))
    def io(E, f, ret, outs):
        if ret is None: return crash(f)
        raw = outs[0](33)
        ok = raw[0]
        if is_sym(ok): ok = hlib.uniq(E, f, ok)
        return dict(ok=1, digest=raw[1:]) if ok else dict(ok=0, digest='*')
    def ref(ctx):
        d = ref_bip341(ctx, T, spent, nIn, ht, ob['sv'], ob['annex'], ah, leaf, cs)
        return dict(ok=1, digest=d) if d is not None else dict(ok=0, digest='*')
    return 'w_sighash_schnorr', [('in', r.b), ('out', 40)], io, ref, [], dict(tx=T['tx'], ht=ht, spent=spent, ah=ah, leaf=leaf, cs=cs)

def run(E, ob):
    fn, spec, io, ref, assume, inputs = prep(ob)
    return hlib.flat_check(E, ob['name'], fn, spec, io, ref, assume, inputs, lambda a, b: 'C02:digest:%s:sv%d' % (ob['kind'], ob['sv']))

def replay(lib, ob, cex):
    return None, 'digest replay: the counterexample is a pair of different preimages; see the obligation note'

def validate(E, lib):
    """engine vs native digests on random concrete transactions (real SHA-256 on both sides)"""
    import random, hashlib
    from core import EncoderMismatch
    rnd = random.Random(12); n = 0
    for ob in [o for o in obligations('quick') if o['kind'] != 'checker'][::5]:
        class RV(dict):
            def get(s, k, d=0): return rnd.choice([0, 1, 2, 3, 0x81, 0x82, 0x83, 0x41]) if k == 'ht' else (0x51 + rnd.randrange(16) if k == 'c2' else rnd.randrange(256))
        fn, spec, io, ref, assume, inputs = prep(ob, RV())
        ret, outs = hlib.spec_native(lib, fn, spec); nat = io(None, None, ret, outs)
        runs = hlib.spec_engine(E, fn, spec)
        if len(runs) != 1 or runs[0][1] is None: raise EncoderMismatch('engine concrete digest run failed on %s: %r' % (ob['name'], [r[0].result for r in runs]))
        eng = io(E, runs[0][0], runs[0][1], runs[0][2])
        if refexec.differs(eng, nat) is not False: raise EncoderMismatch('engine digest != native digest on %s' % ob['name'])
        n += 1
    return n
