"""Reference-side execution: reference models are ordinary Python functions over z3 terms that ask `ctx.branch(cond)`
whenever their control flow depends on a symbolic condition.  `explore` re-runs the function once per feasible decision
sequence and returns the guarded outcomes [(path-condition list, outcome)].  `compare` decides, with the solver, whether an
implementation path (its path condition + observed outcome) can disagree with any reference case."""
import z3, time
from irsym import is_sym, bv, simp

class _Replay(Exception): pass
class RefAbort(Exception):
    """reference declares the case outside its domain (obligation is skipped for these inputs, and reported as such)"""

class Ctx:
    def __init__(s, decisions, assume, timeout_ms=20000):
        s.dec = decisions; s.i = 0; s.pc = list(assume); s.pending = None; s.timeout_ms = timeout_ms; s.queries = 0
    def _sat(s, extra):
        sol = z3.Solver(); sol.set('timeout', s.timeout_ms)
        for c in s.pc: sol.add(c)
        sol.add(extra); s.queries += 1
        r = sol.check()
        return r != z3.unsat          # unknown: keep the case (sound: the case's condition is part of every query)
    def branch(s, cond):
        if cond is True or cond is False: return cond
        if not is_sym(cond): return bool(cond)
        cond = z3.simplify(cond)
        if z3.is_true(cond): return True
        if z3.is_false(cond): return False
        if s.i < len(s.dec):
            d = s.dec[s.i]; s.i += 1
            s.pc.append(cond if d else z3.Not(cond)); return d
        t = s._sat(cond); f = s._sat(z3.Not(cond))
        if t and f:
            s.pending = s.pending or []
            s.pending.append(list(s.dec) + [False])
            s.dec.append(True); s.i += 1; s.pc.append(cond); return True
        if t: s.dec.append(True); s.i += 1; s.pc.append(cond); return True
        if f: s.dec.append(False); s.i += 1; s.pc.append(z3.Not(cond)); return False
        raise _Replay()          # infeasible prefix
    def assume(s, cond):
        if not s.branch(cond): raise _Replay()

def explore(fn, assume=(), timeout_ms=20000, max_cases=4096):
    """fn(ctx) -> outcome (any python structure of ints / z3 terms).  Returns list of (pc, outcome)."""
    work = [[]]; out = []; nq = 0
    while work:
        dec = work.pop()
        ctx = Ctx(dec, assume, timeout_ms)
        try:
            o = fn(ctx)
            out.append((ctx.pc[len(assume):], o))
        except _Replay:
            pass
        except RefAbort as e:
            out.append((ctx.pc[len(assume):], ('ref_abort', str(e))))
        nq += ctx.queries
        if ctx.pending: work.extend(ctx.pending)
        if len(out) > max_cases: raise Exception('reference model produced too many cases')
    return out, nq

# ---------------------------------------------------------------- structural comparison of outcomes
def differs(a, b):
    """returns False (structurally identical for all values), True (differ for all values), or a z3 Bool (differ iff ...)"""
    if (isinstance(a, str) and a == '*') or (isinstance(b, str) and b == '*'): return False       # wildcard
    if isinstance(a, (list, tuple)) and isinstance(b, (list, tuple)):
        if len(a) != len(b): return True
        terms = []
        for x, y in zip(a, b):
            d = differs(x, y)
            if d is True: return True
            if d is not False: terms.append(d)
        if not terms: return False
        return z3.Or(*terms) if len(terms) > 1 else terms[0]
    if isinstance(a, dict) and isinstance(b, dict):
        if set(a) != set(b): return True
        return differs([a[k] for k in sorted(a)], [b[k] for k in sorted(a)])
    if isinstance(a, (list, tuple, dict)) or isinstance(b, (list, tuple, dict)): return True
    if a is None or b is None: return not (a is None and b is None)
    if isinstance(a, str) or isinstance(b, str):
        if a == '*' or b == '*': return False           # wildcard: any script error
        return a != b
    if isinstance(a, bool): a = int(a)
    if isinstance(b, bool): b = int(b)
    sa, sb = is_sym(a), is_sym(b)
    if not sa and not sb: return a != b
    if sa and z3.is_bool(a):
        bb = b if sb else z3.BoolVal(bool(b))
        if sb and not z3.is_bool(b): bb = (b != 0)
        r = z3.simplify(a != bb)
    elif sb and z3.is_bool(b):
        aa = (a != 0) if sa else z3.BoolVal(bool(a))
        r = z3.simplify(aa != b)
    else:
        bits = a.size() if sa else b.size()
        A = bv(a, bits) if not sa else a; B = bv(b, bits) if not sb else b
        if A.size() != B.size():
            m = max(A.size(), B.size())
            if A.size() < m: A = z3.ZeroExt(m - A.size(), A)
            if B.size() < m: B = z3.ZeroExt(m - B.size(), B)
        r = z3.simplify(A != B)
    if z3.is_true(r): return True
    if z3.is_false(r): return False
    return r

class Verdict:
    def __init__(s): s.status = 'holds'; s.queries = 0; s.sat = 0; s.unsat = 0; s.unknown = 0; s.time = 0.0; s.cex = None; s.why = None

def decide(impl_pc, impl_outcome, ref_cases, verdict, timeout_ms=20000, on_sat=None, ground=None, crash_everywhere=False):
    """for one implementation path: is there an input on this path for which the reference outcome differs?
    One query: pc /\ OR_i (refcond_i /\ outcome differs from refoutcome_i)."""
    disj = []; which = []
    for (rpc, ro) in ref_cases:
        if isinstance(ro, tuple) and ro and ro[0] == 'ref_abort':
            # inputs for which the reference prescribes no outcome: nothing to compare - except, where the harness says so, that the implementation must not crash there either
            if crash_everywhere and isinstance(impl_outcome, (tuple, list)) and impl_outcome and impl_outcome[0] == 'crash':
                disj.append(z3.And(*rpc) if len(rpc) > 1 else (rpc[0] if rpc else z3.BoolVal(True))); which.append((rpc, ro))
            continue
        d = differs(impl_outcome, ro)
        if d is False: continue
        conj = list(rpc) + ([] if d is True else [d])
        disj.append(z3.And(*conj) if len(conj) > 1 else (conj[0] if conj else z3.BoolVal(True))); which.append((rpc, ro))
    if not disj: return
    t0 = time.time()
    for attempt in (1, 6):          # an unknown answer is retried once with a six-fold time limit
        sol = z3.Solver(); sol.set('timeout', timeout_ms * attempt)
        for c in impl_pc: sol.add(c)
        sol.add(z3.Or(*disj) if len(disj) > 1 else disj[0])
        r = sol.check(); verdict.queries += 1
        if r != z3.unknown: break
    verdict.time += time.time() - t0
    if r == z3.sat:
        verdict.sat += 1
        if verdict.status != 'violated':
            m = sol.model()
            if ground is not None:
                m2 = ground(sol, m)           # refine the model so that uninterpreted hashes take their real values on the counterexample's inputs
                if m2 is not None: m = m2
            ro = None
            for dj, (rpc, ro_) in zip(disj, which):
                if z3.is_true(m.eval(dj, model_completion=True)): ro = ro_; break
            verdict.status = 'violated'; verdict.cex = m; verdict.why = (impl_outcome, ro)
            if on_sat: on_sat(m, impl_outcome, ro)
    elif r == z3.unknown:
        verdict.unknown += 1
        if verdict.status == 'holds': verdict.status = 'inconclusive'; verdict.why = 'solver unknown'
    else: verdict.unsat += 1

def covers(ref_cases, assume, timeout_ms=20000):
    """sanity: the reference cases are exhaustive under the assumptions (no input without a reference answer)"""
    sol = z3.Solver(); sol.set('timeout', timeout_ms)
    for c in assume: sol.add(c)
    for (rpc, ro) in ref_cases: sol.add(z3.Not(z3.And(*rpc)) if rpc else z3.BoolVal(False))
    return sol.check() == z3.unsat
