#!/usr/bin/env python3
"""ir2c: translate a slice of textual LLVM-14 IR (clang -O1, typed pointers) into plain C
that CBMC's C front end accepts.  Memory is byte-addressed: every GEP becomes byte
arithmetic computed from the module's data layout, every load/store is a typed access
through a cast, allocas/globals are aligned byte arrays.  C++ exceptions are modelled with
a global "in flight" flag (see rt.h).

usage: ir2c.py out.c --roots f1,f2 in1.ll [in2.ll ...] [--skip name,...]
"""
import re, sys, hashlib

# ---------------------------------------------------------------- types
class T:  # base
    pass
class IntT(T):
    def __init__(s, bits): s.bits = bits
    def __repr__(s): return 'i%d' % s.bits
class FloatT(T):
    def __init__(s, name): s.name = name
    def __repr__(s): return s.name
class PtrT(T):
    def __init__(s, to): s.to = to
    def __repr__(s): return '%r*' % (s.to,)
class ArrT(T):
    def __init__(s, n, el): s.n = n; s.el = el
    def __repr__(s): return '[%d x %r]' % (s.n, s.el)
class VecT(T):
    def __init__(s, n, el): s.n = n; s.el = el
class StructT(T):
    def __init__(s, fields, packed=False, name=None): s.fields = fields; s.packed = packed; s.name = name
    def __repr__(s): return s.name or '{%s}' % ','.join(map(repr, s.fields))
class NamedT(T):
    def __init__(s, name, mod): s.name = name; s.mod = mod
    def resolve(s):
        return s.mod.types[s.name]
    def __repr__(s): return s.name
class VoidT(T):
    def __repr__(s): return 'void'
class FuncT(T):
    def __init__(s, ret, args, vararg): s.ret = ret; s.args = args; s.vararg = vararg
    def __repr__(s): return '%r(%s)' % (s.ret, ','.join(map(repr, s.args)))
class OpaqueT(T):
    pass
class MetaT(T):
    pass
class LabelT(T):
    pass

def res(t):
    while isinstance(t, NamedT):
        t = t.resolve()
    return t

_SZ = {}; _AL = {}; _FO = {}
def sizeof(t):
    t = res(t)
    r = _SZ.get(id(t))
    if r is None:
        r = _sizeof(t); _SZ[id(t)] = r; _KEEP.append(t)
    return r
_KEEP = []
def _sizeof(t):
    if isinstance(t, IntT):
        b = (t.bits + 7) // 8
        for s in (1, 2, 4, 8, 16):
            if b <= s: return s
        return (b + 7) // 8 * 8
    if isinstance(t, PtrT): return 8
    if isinstance(t, FloatT): return {'float': 4, 'double': 8, 'x86_fp80': 16, 'half': 2}[t.name]
    if isinstance(t, ArrT): return t.n * sizeof(t.el)
    if isinstance(t, VecT): return t.n * sizeof(t.el)
    if isinstance(t, StructT):
        off = 0; al = 1
        for f in t.fields:
            a = 1 if t.packed else alignof(f)
            al = max(al, a)
            off = (off + a - 1) // a * a
            off += sizeof(f)
        return (off + al - 1) // al * al
    if isinstance(t, OpaqueT): return 0
    raise Exception('sizeof %r' % (t,))

def alignof(t):
    t = res(t)
    r = _AL.get(id(t))
    if r is None:
        r = _alignof(t); _AL[id(t)] = r; _KEEP.append(t)
    return r
def _alignof(t):
    if isinstance(t, IntT): return min(sizeof(t), 16) if t.bits > 64 else min(sizeof(t), 8)
    if isinstance(t, PtrT): return 8
    if isinstance(t, FloatT): return {'float': 4, 'double': 8, 'x86_fp80': 16, 'half': 2}[t.name]
    if isinstance(t, (ArrT, VecT)): return alignof(t.el)
    if isinstance(t, StructT):
        if t.packed: return 1
        return max([alignof(f) for f in t.fields] + [1])
    return 1

def field_off(t, idx):
    t = res(t)
    k = (id(t), idx); r = _FO.get(k)
    if r is None:
        r = _field_off(t, idx); _FO[k] = r; _KEEP.append(t)
    return r
def _field_off(t, idx):
    off = 0
    for i, f in enumerate(t.fields):
        a = 1 if t.packed else alignof(f)
        off = (off + a - 1) // a * a
        if i == idx: return off
        off += sizeof(f)
    raise Exception('field_off')

# ---------------------------------------------------------------- lexer
TOK = re.compile(r'''\s*(?:
   (?P<str>c"(?:[^"\\]|\\[0-9A-Fa-f]{2}|\\\\)*")
  |(?P<qid>[%@$]"(?:[^"\\]|\\.)*")
  |(?P<id>[%@$][-a-zA-Z$._0-9]+)
  |(?P<meta>![-a-zA-Z$._0-9]*(?:"[^"]*")?)
  |(?P<attrg>\#\d+)
  |(?P<num>-?\d+\.\d+(?:e[+-]?\d+)?|0x[KLMHR]?[0-9A-Fa-f]+|-?\d+)
  |(?P<word>[a-zA-Z_][a-zA-Z0-9_.]*)
  |(?P<dots>\.\.\.)
  |(?P<sym><\{|\}>|[()\[\]{}<>,=*:|])
  |(?P<cstr>"(?:[^"\\]|\\.)*")
)''', re.X)

def lex(s):
    out = []; pos = 0; n = len(s)
    while pos < n:
        if s[pos] == ';':
            break
        m = TOK.match(s, pos)
        if not m:
            if s[pos:].strip() == '': break
            raise Exception('lex error at %r' % s[pos:pos + 40])
        pos = m.end()
        k = m.lastgroup
        out.append((k, m.group(k)))
    return out

class P:
    """token cursor"""
    def __init__(s, toks, mod): s.t = toks; s.i = 0; s.mod = mod
    def peek(s, k=0): return s.t[s.i + k] if s.i + k < len(s.t) else (None, None)
    def next(s): r = s.t[s.i]; s.i += 1; return r
    def accept(s, v):
        if s.peek()[1] == v: s.i += 1; return True
        return False
    def expect(s, v):
        r = s.next()
        if r[1] != v: raise Exception('expected %r got %r at %d in %r' % (v, r, s.i, ' '.join(x[1] for x in s.t[max(0, s.i - 8):s.i + 8])))
    def end(s): return s.i >= len(s.t)

    # -------- types
    def type(s):
        k, v = s.next()
        if k == 'word':
            if v == 'void': t = VoidT()
            elif re.fullmatch(r'i\d+', v): t = IntT(int(v[1:]))
            elif v in ('float', 'double', 'x86_fp80', 'half'): t = FloatT(v)
            elif v == 'opaque': t = OpaqueT()
            elif v == 'metadata': t = MetaT()
            elif v == 'label': t = LabelT()
            elif v == 'ptr': t = PtrT(IntT(8))
            elif v == 'token': t = MetaT()
            else: raise Exception('type word %r' % v)
        elif k in ('id', 'qid') and v[0] == '%':
            t = NamedT(unq(v), s.mod)
        elif v == '[':
            n = int(s.next()[1]); s.expect('x'); el = s.type(); s.expect(']'); t = ArrT(n, el)
        elif v == '<':
            n = int(s.next()[1]); s.expect('x'); el = s.type(); s.expect('>'); t = VecT(n, el)
        elif v == '{' or v == '<{':
            packed = v == '<{'
            fs = []
            close = '}>' if packed else '}'
            if not s.accept(close):
                while True:
                    fs.append(s.type())
                    if s.accept(close): break
                    s.expect(',')
            t = StructT(fs, packed)
        else:
            raise Exception('type? %r' % ((k, v),))
        while True:
            if s.accept('*'):
                t = PtrT(t)
            elif s.peek()[1] == '(' and not isinstance(t, (MetaT,)):
                # function type
                s.next(); args = []; va = False
                if not s.accept(')'):
                    while True:
                        if s.accept('...'): va = True
                        else: args.append(s.type())
                        if s.accept(')'): break
                        s.expect(',')
                t = FuncT(t, args, va)
            elif s.peek()[1] == 'addrspace':
                s.next(); s.expect('('); s.next(); s.expect(')')
            else:
                break
        return t

PARAM_ATTRS = {'noundef', 'nonnull', 'nocapture', 'readonly', 'writeonly', 'readnone', 'noalias', 'zeroext', 'signext',
               'returned', 'immarg', 'inreg', 'nest', 'nofree', 'swiftself', 'noreturn', 'nounwind', 'inalloca', 'swifterror'}
PARAM_ATTRS_ARG = {'align', 'dereferenceable', 'dereferenceable_or_null'}
PARAM_ATTRS_TY = {'sret', 'byval', 'byref', 'preallocated', 'elementtype'}

def skip_param_attrs(p):
    info = {}
    while True:
        k, v = p.peek()
        if v in PARAM_ATTRS:
            p.next(); info[v] = True
        elif v in PARAM_ATTRS_ARG:
            p.next()
            if p.accept('('):
                info[v] = int(p.next()[1]); p.expect(')')
            else:
                info[v] = int(p.next()[1])
        elif v in PARAM_ATTRS_TY:
            p.next(); p.expect('('); info[v] = p.type(); p.expect(')')
        else:
            return info

# ---------------------------------------------------------------- values
class V:
    pass
class Reg(V):
    def __init__(s, name): s.name = name
class Glob(V):
    def __init__(s, name): s.name = name
class CInt(V):
    def __init__(s, v): s.v = v
class CNull(V): pass
class CUndef(V): pass
class CZero(V): pass
class CStr(V):
    def __init__(s, b): s.b = b
class CAgg(V):
    def __init__(s, elems): s.elems = elems  # list of (type, V)
class CExpr(V):
    def __init__(s, op, args, extra=None): s.op = op; s.args = args; s.extra = extra  # args: list of (type,V)
class CFloat(V):
    def __init__(s, txt): s.txt = txt

def unq(name):
    if len(name) > 1 and name[1] == '"':
        body = name[2:-1]
        body = re.sub(r'\\([0-9A-Fa-f]{2})', lambda m: chr(int(m.group(1), 16)), body)
        return name[0] + body
    return name

def parse_value(p, ty):
    k, v = p.next()
    if k in ('id', 'qid'):
        v = unq(v)
        return Reg(v) if v[0] == '%' else Glob(v)
    if k == 'num':
        if '.' in v or v.startswith('0x'):
            return CFloat(v)
        return CInt(int(v))
    if k == 'word':
        if v == 'null': return CNull()
        if v in ('undef', 'poison'): return CUndef()
        if v == 'zeroinitializer': return CZero()
        if v == 'true': return CInt(1)
        if v == 'false': return CInt(0)
        if v == 'none': return CNull()
        if v in ('getelementptr', 'bitcast', 'ptrtoint', 'inttoptr', 'add', 'sub', 'mul', 'and', 'or', 'xor', 'shl', 'lshr', 'ashr',
                 'trunc', 'zext', 'sext', 'icmp', 'select', 'addrspacecast'):
            while p.peek()[1] in ('inbounds', 'nuw', 'nsw', 'exact', 'inrange'): p.next()
            extra = None
            if v == 'icmp': extra = p.next()[1]
            p.expect('(')
            args = []
            if v == 'getelementptr':
                extra = p.type(); p.expect(',')
            while True:
                while p.peek()[1] == 'inrange': p.next()
                t = p.type(); a = parse_value(p, t); args.append((t, a))
                if p.accept(')'): break
                if p.accept('to'):
                    extra = p.type(); p.expect(')'); break
                p.expect(',')
            return CExpr(v, args, extra)
        if v == 'blockaddress' or v == 'dso_local_equivalent' or v == 'no_cfi':
            raise Exception('unsupported const ' + v)
    if k == 'str':
        body = v[2:-1]
        b = bytearray(); i = 0
        while i < len(body):
            if body[i] == '\\':
                if body[i + 1] == '\\': b.append(92); i += 2
                else: b.append(int(body[i + 1:i + 3], 16)); i += 3
            else:
                b.append(ord(body[i])); i += 1
        return CStr(bytes(b))
    if v in ('{', '[', '<{', '<'):
        close = {'{': '}', '[': ']', '<{': '}>', '<': '>'}[v]
        elems = []
        if v == '<' and p.peek()[1] == '{':  # packed struct written as <{ ... }> is lexed as '<{'
            pass
        if not p.accept(close):
            while True:
                t = p.type(); a = parse_value(p, t); elems.append((t, a))
                if p.accept(close): break
                p.expect(',')
        return CAgg(elems)
    raise Exception('value? %r' % ((k, v),))

# ---------------------------------------------------------------- module
class Func:
    def __init__(s): s.blocks = []; s.params = []; s.name = None; s.ret = None; s.vararg = False; s.defined = False; s.attrs = ''
class Module:
    def __init__(s): s.types = {}; s.globals = {}; s.funcs = {}; s.order = []

LINKAGE = {'private', 'internal', 'available_externally', 'linkonce', 'weak', 'common', 'appending', 'extern_weak', 'linkonce_odr',
           'weak_odr', 'external', 'dso_local', 'dso_preemptable', 'default', 'hidden', 'protected', 'unnamed_addr',
           'local_unnamed_addr', 'thread_local', 'externally_initialized', 'dllimport', 'dllexport'}

def parse_module(text, mod):
    lines = text.split('\n')
    i = 0
    while i < len(lines):
        ln = lines[i]; i += 1
        if not ln or ln[0] == ';' or ln.startswith('source_filename') or ln.startswith('target ') or ln[0] == '!' or ln.startswith('attributes ') or ln[0] == '$':
            continue
        if ln[0] == '%':
            m = re.match(r'(%"(?:[^"\\]|\\.)*"|%[-a-zA-Z$._0-9]+) = type (.*)$', ln)
            name = unq(m.group(1))
            p = P(lex(m.group(2)), mod)
            t = p.type()
            if isinstance(t, StructT): t.name = name
            mod.types.setdefault(name, t)
            continue
        if ln[0] == '@':
            parse_global(ln, mod); continue
        if ln.startswith('declare '):
            parse_fhead(ln[8:], mod, False); continue
        if ln.startswith('define '):
            f = parse_fhead(ln[7:], mod, True)
            body = []
            while lines[i] != '}':
                body.append(lines[i]); i += 1
            i += 1
            if f is not None:
                f.body = body
            continue
        raise Exception('toplevel? ' + ln[:80])

def parse_global(ln, mod):
    p = P(lex(ln), mod)
    name = unq(p.next()[1]); p.expect('=')
    external = False
    while p.peek()[1] in LINKAGE:
        if p.peek()[1] in ('external', 'extern_weak'): external = True
        if p.peek()[1] == 'thread_local':
            p.next()
            if p.accept('('): p.next(); p.expect(')')
            continue
        p.next()
    if p.peek()[1] == 'alias':
        p.next(); t = p.type(); p.expect(','); t2 = p.type(); tgt = parse_value(p, t2)
        mod.globals.setdefault(name, dict(name=name, type=t, init=None, alias=tgt, const=True)); return
    k = p.next()[1]
    assert k in ('global', 'constant'), ln[:100]
    t = p.type()
    init = None
    if not external and not p.end() and p.peek()[1] != ',':
        init = parse_value(p, t)
    al = None
    while not p.end():
        if p.accept(','):
            if p.peek()[1] == 'align': p.next(); al = int(p.next()[1])
            else: p.next();
            if p.peek()[1] == '(':
                while not p.accept(')'): p.next()
        else: p.next()
    g = dict(name=name, type=t, init=init, const=(k == 'constant'), align=al, alias=None)
    old = mod.globals.get(name)
    if old is None or (old['init'] is None and init is not None):
        mod.globals[name] = g

def parse_fhead(s, mod, defined):
    s = re.sub(r'\s*(#\d+\s*)*(comdat(\s*\([^)]*\))?\s*)?(align \d+\s*)?(personality .*?)?\{?\s*$', '', s) if False else s
    p = P(lex(s), mod)
    while p.peek()[1] in LINKAGE or p.peek()[1] in ('fastcc', 'ccc', 'coldcc', 'tailcc'):
        p.next()
    rinfo = skip_param_attrs(p)
    ret = p.type()
    name = unq(p.next()[1])
    p.expect('(')
    params = []; va = False
    if not p.accept(')'):
        while True:
            if p.accept('...'):
                va = True
            else:
                t = p.type(); info = skip_param_attrs(p)
                pn = None
                if p.peek()[0] in ('id', 'qid'): pn = unq(p.next()[1])
                params.append((t, pn, info))
            if p.accept(')'): break
            p.expect(',')
    rest = ' '.join(x[1] for x in p.t[p.i:])
    f = Func(); f.name = name; f.ret = ret; f.params = params; f.vararg = va; f.defined = defined; f.attrs = rest
    old = mod.funcs.get(name)
    if old is None or (defined and not old.defined):
        mod.funcs[name] = f
        return f
    return None

# ---------------------------------------------------------------- C emission
def cname(name):
    n = name[1:]
    if n in ('stderr', 'stdout', 'stdin', 'environ'): return 'ir_g_' + n
    if n.startswith('__cxa_') or n == '__assert_fail': return 'ir' + n
    if re.fullmatch(r'[A-Za-z_][A-Za-z0-9_]*', n) and not n.startswith('__CPROVER'):
        return n
    h = hashlib.md5(n.encode()).hexdigest()[:8]
    return 'x_' + re.sub(r'[^A-Za-z0-9_]', '_', n)[:60] + '_' + h

C_RESERVED = {'free', 'malloc', 'realloc', 'calloc', 'memcmp', 'memcpy', 'memmove', 'memset', 'strlen', 'abort', 'exit', 'printf', 'fprintf',
              'snprintf', 'puts', 'putchar', 'fputc', 'strcmp', 'strncmp', 'atoi', 'atol', 'atoll', 'bcmp', 'strndup', 'strdup', 'fwrite', 'fputs', 'sprintf', 'strtol', 'memchr', 'strchr'}

class Emit:
    def __init__(s, mod, skip):
        s.mod = mod; s.out = []; s.structs = {}; s.skip = skip
        s.need_funcs = []; s.seen_funcs = set(); s.need_globs = []; s.seen_globs = set()
        s.typeids = {}

    # ---- C types for SSA values
    def cty(s, t):
        t = res(t)
        if isinstance(t, IntT):
            if t.bits == 1: return 'uint8_t'
            for b in (8, 16, 32, 64):
                if t.bits <= b: return 'uint%d_t' % b
            if t.bits <= 128: return 'unsigned __int128'
            raise Exception('int width %d' % t.bits)
        if isinstance(t, PtrT): return 'uint8_t*'
        if isinstance(t, FloatT): return {'float': 'float', 'double': 'double', 'x86_fp80': 'long double'}[t.name]
        if isinstance(t, VoidT): return 'void'
        if isinstance(t, (StructT, ArrT)):
            key = s.tkey(t)
            if key not in s.structs:
                if isinstance(t, StructT):
                    for f in t.fields: s.cty(f)
                else:
                    s.cty(t.el)
                nm = 'agg_%d' % len(s.structs)
                if isinstance(t, StructT):
                    body = ''; off = 0; k = 0
                    for idx, f in enumerate(t.fields):
                        fo = field_off(t, idx)
                        if fo > off: body += ' uint8_t pad%d[%d];' % (k, fo - off); k += 1
                        body += ' %s f%d;' % (s.cty(f), idx)
                        off = fo + sizeof(f)
                    tot = sizeof(t)
                    if tot > off: body += ' uint8_t pad%d[%d];' % (k, tot - off)
                    if not t.fields: body = ' uint8_t empty;'
                    s.structs[key] = (nm, 'typedef struct __attribute__((packed)) {%s } %s;' % (body, nm))
                else:
                    s.structs[key] = (nm, 'typedef struct { %s e[%d]; } %s;' % (s.cty(t.el), max(t.n, 1), nm))
            return s.structs[key][0]
        raise Exception('cty %r' % (t,))

    def tkey(s, t):
        t = res(t)
        if isinstance(t, IntT): return 'i%d' % t.bits
        if isinstance(t, PtrT): return 'p'
        if isinstance(t, FloatT): return t.name
        if isinstance(t, ArrT): return '[%d %s]' % (t.n, s.tkey(t.el))
        if isinstance(t, StructT): return ('<' if t.packed else '{') + ','.join(s.tkey(f) for f in t.fields) + '}'
        return repr(t)

    def mask(s, t, e):
        t = res(t)
        if isinstance(t, IntT) and t.bits not in (8, 16, 32, 64, 128):
            return '((%s)((%s) & %s))' % (s.cty(t), e, hex((1 << t.bits) - 1) + ('ULL' if t.bits > 31 else 'U'))
        return e

    def sx(s, t, e):
        """C expression: value e of int type t as signed, sign-extended to its C carrier (int64 for <=64)"""
        t = res(t); b = t.bits
        if b in (8, 16, 32, 64): return '((int%d_t)(%s))' % (b, e)
        if b == 128: return '((__int128)(%s))' % e
        cb = 8 if b < 8 else 16 if b < 16 else 32 if b < 32 else 64
        return '((int%d_t)(((int%d_t)((%s) << %d)) >> %d))' % (cb, cb, '(uint%d_t)(%s)' % (cb, e), cb - b, cb - b)

    # ---- constants / operands
    def val(s, t, v, fn=None):
        t0 = t; t = res(t)
        if isinstance(v, Reg):
            return fn.reg(v.name)
        if isinstance(v, Glob):
            return s.gref(v.name)
        if isinstance(v, CInt):
            if isinstance(t, IntT):
                x = v.v & ((1 << t.bits) - 1)
                if t.bits > 64: return '((unsigned __int128)%sULL)' % x if x < (1 << 64) else '((((unsigned __int128)%sULL)<<64)|%sULL)' % (x >> 64, x & ((1 << 64) - 1))
                return '((%s)%s%s)' % (s.cty(t), x, 'ULL' if t.bits > 32 else 'U')
            if isinstance(t, PtrT): return '((uint8_t*)%dULL)' % v.v
            raise Exception('cint for %r' % (t,))
        if isinstance(v, CNull): return '((uint8_t*)0)'
        if isinstance(v, (CUndef, CZero)):
            if isinstance(t, (StructT, ArrT)): return '((%s){0})' % s.cty(t)
            if isinstance(t, PtrT): return '((uint8_t*)0)'
            if isinstance(t, FloatT): return '0.0'
            return '((%s)0)' % s.cty(t)
        if isinstance(v, CFloat):
            if v.txt.startswith('0x'):
                import struct
                return repr(struct.unpack('>d', bytes.fromhex(v.txt[2:].rjust(16, '0')))[0])
            return v.txt
        if isinstance(v, CExpr):
            return s.cexpr(v, fn)
        if isinstance(v, CAgg):
            if isinstance(t, StructT):
                return '((%s){%s})' % (s.cty(t), ', '.join('.f%d = %s' % (i, s.val(et, ev, fn)) for i, (et, ev) in enumerate(v.elems)))
            return '((%s){{%s}})' % (s.cty(t), ', '.join(s.val(et, ev, fn) for et, ev in v.elems))
        raise Exception('val %r %r' % (t, v))

    def gref(s, name):
        name = s.resolve_alias(name)
        if name in s.mod.funcs:
            s.want_func(name)
            return '((uint8_t*)&%s)' % s.fname(name)
        g = s.mod.globals.get(name)
        if g is None: raise Exception('unknown global ' + name)
        if g.get('alias') is not None:
            t, v = None, g['alias']
            return s.val(PtrT(IntT(8)), v)
        s.want_glob(name)
        return '((uint8_t*)%s)' % cname(name)

    def fname(s, name):
        n = cname(name)
        if n in C_RESERVED: return 'ir_' + n
        return n

    def typeid(s, v):
        while isinstance(v, CExpr): v = v.args[0][1]
        assert isinstance(v, Glob), v
        if v.name not in s.typeids: s.typeids[v.name] = len(s.typeids) + 2
        return s.typeids[v.name]

    def resolve_alias(s, name):
        f = s.mod.funcs.get(name)
        if (f is None or not f.defined) and name in s.mod.globals and s.mod.globals[name].get('alias') is not None:
            v = s.mod.globals[name]['alias']
            while isinstance(v, CExpr): v = v.args[0][1]
            if isinstance(v, Glob): return s.resolve_alias(v.name)
        return name

    def want_func(s, name):
        if name not in s.seen_funcs:
            s.seen_funcs.add(name); s.need_funcs.append(name)
    def want_glob(s, name):
        if name not in s.seen_globs:
            s.seen_globs.add(name); s.need_globs.append(name)

    def gep_const(s, basety, idxs):
        """idxs: list of (type, V) all constant ints -> byte offset; returns (offset, resulttype)"""
        raise NotImplementedError

    def gep(s, srcty, base_c, idxs, fn):
        """returns C expr (uint8_t*)"""
        cur = srcty; terms = []; const = 0
        for n, (it, iv) in enumerate(idxs):
            if n == 0:
                sz = sizeof(cur)
                if isinstance(iv, CInt): const += iv.v * sz
                else: terms.append('(%s)*(int64_t)%d' % (s.sxi(it, iv, fn), sz))
                continue
            c = res(cur)
            if isinstance(c, StructT):
                assert isinstance(iv, CInt)
                const += field_off(c, iv.v); cur = c.fields[iv.v]
            elif isinstance(c, (ArrT, VecT)):
                sz = sizeof(c.el)
                if isinstance(iv, CInt): const += iv.v * sz
                else: terms.append('(%s)*(int64_t)%d' % (s.sxi(it, iv, fn), sz))
                cur = c.el
            else:
                raise Exception('gep into %r' % (c,))
        e = base_c
        if const or terms:
            e = '(%s + (%s))' % (base_c, ' + '.join(terms + (['(int64_t)%d' % const] if const or not terms else [])))
        return e

    def sxi(s, t, v, fn):
        return '(int64_t)' + s.sx(t, s.val(t, v, fn))

    def cexpr(s, e, fn):
        op = e.op
        if op == 'getelementptr':
            (bt, bv) = e.args[0]
            return s.gep(e.extra, s.val(bt, bv, fn), e.args[1:], fn)
        if op in ('bitcast', 'addrspacecast'):
            (t, v) = e.args[0]
            return s.val(t, v, fn)
        if op == 'ptrtoint':
            (t, v) = e.args[0]
            return '((%s)(uintptr_t)%s)' % (s.cty(e.extra), s.val(t, v, fn))
        if op == 'inttoptr':
            (t, v) = e.args[0]
            return '((uint8_t*)(uintptr_t)%s)' % s.val(t, v, fn)
        if op in ('add', 'sub', 'mul', 'and', 'or', 'xor'):
            (t, a), (_, b) = e.args
            return s.mask(t, '(%s %s %s)' % (s.val(t, a, fn), {'add': '+', 'sub': '-', 'mul': '*', 'and': '&', 'or': '|', 'xor': '^'}[op], s.val(t, b, fn)))
        if op in ('trunc', 'zext'):
            (t, v) = e.args[0]
            return s.mask(e.extra, '((%s)%s)' % (s.cty(e.extra), s.val(t, v, fn)))
        raise Exception('cexpr ' + op)

    # ---- global definitions
    def emit_global(s, name, decls, inits):
        g = s.mod.globals[name]
        t = g['type']; cn = cname(name)
        if g['init'] is None:
            # external: unknown content; give it storage (nondet) -- listed for review
            decls.append('extern uint8_t %s[]; /* external global */' % cn)
            return
        sz = max(sizeof(t), 1)
        data = bytearray(sz); fix = []
        ok = s.flatten(t, g['init'], 0, data, fix)
        al = g.get('align') or alignof(t)
        decls.append('uint8_t %s[%d] __attribute__((aligned(%d))) = {%s};' % (cn, sz, max(al, 8), ','.join(str(b) for b in data) if any(data) else '0'))
        for off, ft, fv in fix:
            inits.append('*(%s*)(%s + %d) = %s;' % (s.cty(ft), cn, off, s.val(ft, fv)))

    def flatten(s, t, v, off, data, fix):
        t = res(t)
        if isinstance(v, (CZero, CUndef, CNull)): return
        if isinstance(v, CInt):
            n = sizeof(t); x = v.v & ((1 << (8 * n)) - 1)
            if isinstance(t, IntT): x = v.v & ((1 << t.bits) - 1)
            data[off:off + n] = x.to_bytes(n, 'little'); return
        if isinstance(v, CStr):
            data[off:off + len(v.b)] = v.b; return
        if isinstance(v, CAgg):
            if isinstance(t, StructT):
                for i, (et, ev) in enumerate(v.elems):
                    s.flatten(et, ev, off + field_off(t, i), data, fix)
            else:
                es = sizeof(t.el)
                for i, (et, ev) in enumerate(v.elems):
                    s.flatten(et, ev, off + i * es, data, fix)
            return
        if isinstance(v, CFloat):
            import struct
            if v.txt.startswith('0x'): b = bytes.fromhex(v.txt[2:].rjust(16, '0'))[::-1]
            else: b = struct.pack('<d', float(v.txt))
            if sizeof(t) == 4: b = struct.pack('<f', struct.unpack('<d', b)[0])
            data[off:off + len(b)] = b; return
        fix.append((off, t, v))

# ---------------------------------------------------------------- function bodies
INSTR_ASSIGN = re.compile(r'^\s+(%"(?:[^"\\]|\\.)*"|%[-a-zA-Z$._0-9]+) = (.*)$')
FAST = {'nnan', 'ninf', 'nsz', 'arcp', 'contract', 'afn', 'reassoc', 'fast'}

class FnEmit:
    def __init__(s, E, f):
        s.E = E; s.f = f; s.regs = {}; s.decl = []; s.code = []; s.labels = {}
        s.nreg = 0
    def reg(s, name):
        if name not in s.regs: raise Exception('undefined reg %s in %s' % (name, s.f.name))
        return s.regs[name][0]
    def defreg(s, name, t):
        cn = 'r' + re.sub(r'[^A-Za-z0-9_]', '_', name[1:])
        if cn in s.used: cn = cn + '_%d' % len(s.used)
        s.used.add(cn)
        s.regs[name] = (cn, t)
    def lab(s, name):
        return 'L' + re.sub(r'[^A-Za-z0-9_]', '_', name.lstrip('%'))

    def run(s):
        E = s.E; f = s.f
        s.used = set(); s.p2i = {}
        # pass 0: split blocks
        blocks = []; cur = None
        first = True
        for ln in f.body:
            if not ln.strip(): continue
            m = re.match(r'^("(?:[^"\\]|\\.)*"|[-a-zA-Z$._0-9]+):', ln)
            if m:
                cur = [unq('%' + m.group(1)) if m.group(1)[0] == '"' else '%' + m.group(1), []]; blocks.append(cur); continue
            if cur is None:
                # implicit entry label = number of params (unnamed) -> compute
                cur = [None, []]; blocks.append(cur)
            cur[1].append(ln)
        # entry label name: unnamed values are numbered; entry block gets next number after params
        if blocks[0][0] is None:
            n = 0
            for (t, pn, info) in f.params:
                if pn is None or re.fullmatch(r'%\d+', pn): n += 1
            blocks[0][0] = '%%%d' % n
        # params
        pnames = []
        cnt = 0
        for (t, pn, info) in f.params:
            if pn is None: pn = '%%%d' % cnt
            if re.fullmatch(r'%\d+', pn): cnt = int(pn[1:]) + 1
            s.defreg(pn, t); pnames.append(pn)
        # pass 1: parse all instructions, define result regs with types
        parsed = []
        for (bn, lines) in blocks:
            ins = []
            j = 0
            while j < len(lines):
                ln = lines[j]; j += 1
                # continuation lines (invoke 'to label', switch cases, landingpad clauses)
                if re.match(r'^\s+switch ', ln) and not ln.rstrip().endswith(']'):
                    while True:
                        ln += ' ' + lines[j].strip(); j += 1
                        if lines[j - 1].strip() == ']': break
                while j < len(lines) and re.match(r'^\s+(to label|catch |cleanup|filter )', lines[j]):
                    ln += ' ' + lines[j].strip(); j += 1
                m = INSTR_ASSIGN.match(ln)
                if m: dst = unq(m.group(1)); rest = m.group(2)
                else: dst = None; rest = ln.strip()
                p = P(lex(rest), E.mod)
                ins.append(s.parse_instr(dst, p, rest))
            parsed.append((bn, ins))
        for bn, ins in parsed:
            for I in ins:
                if I['dst'] is not None and not isinstance(res(I['ty']), VoidT):
                    s.defreg(I['dst'], I['ty'])
        # phi map: succ block -> list of (dstreg, ty, {pred: val})
        s.phis = {}
        for bn, ins in parsed:
            for I in ins:
                if I['op'] == 'phi':
                    s.phis.setdefault(bn, []).append(I)
        # pass 2: emit
        for bn, ins in parsed:
            s.code.append('%s: ;' % s.lab(bn))
            s.curblock = bn
            for I in ins:
                if I['op'] == 'phi': continue
                s.emit_instr(I)
        # assemble
        E = s.E
        ret = E.cty(f.ret)
        ps = ', '.join('%s %s' % (E.cty(t), s.regs[pn][0]) for (t, _, _), pn in zip(f.params, pnames))
        if f.vararg: ps = (ps + ', ...') if ps else '...'
        head = '%s %s(%s)' % (ret, E.fname(f.name), ps or 'void')
        decls = []
        rt_ = res(f.ret)
        if isinstance(rt_, VoidT):
            s.code.append('IR_EXIT: return;')
        else:
            if isinstance(rt_, (StructT, ArrT)): decls.append('  %s ir_ret = {0};' % ret)
            else: decls.append('  %s ir_ret = 0;' % ret)
            s.code.append('IR_EXIT: return ir_ret;')
        for name, (cn, t) in s.regs.items():
            if name in pnames: continue
            decls.append('  %s %s;' % (E.cty(t), cn))
        return head, decls + s.decl, s.code

    # ------------------------------------------------ parse one instruction into dict
    def parse_instr(s, dst, p, raw):
        E = s.E
        k, op = p.next()
        I = dict(dst=dst, op=op, ty=VoidT(), raw=raw)
        if op in ('tail', 'musttail', 'notail'):
            k, op = p.next(); I['op'] = op
        def tv():
            t = p.type(); v = parse_value(p, t); return (t, v)
        if op in ('add', 'sub', 'mul', 'udiv', 'sdiv', 'urem', 'srem', 'shl', 'lshr', 'ashr', 'and', 'or', 'xor', 'fadd', 'fsub', 'fmul', 'fdiv', 'frem'):
            while p.peek()[1] in ('nuw', 'nsw', 'exact') or p.peek()[1] in FAST: p.next()
            t = p.type(); a = parse_value(p, t); p.expect(','); b = parse_value(p, t)
            I.update(ty=t, a=a, b=b)
        elif op == 'fneg':
            while p.peek()[1] in FAST: p.next()
            t = p.type(); a = parse_value(p, t); I.update(ty=t, a=a)
        elif op in ('icmp', 'fcmp'):
            while p.peek()[1] in FAST: p.next()
            pred = p.next()[1]; t = p.type(); a = parse_value(p, t); p.expect(','); b = parse_value(p, t)
            I.update(ty=IntT(1), pred=pred, oty=t, a=a, b=b)
        elif op in ('trunc', 'zext', 'sext', 'bitcast', 'ptrtoint', 'inttoptr', 'fptoui', 'fptosi', 'uitofp', 'sitofp', 'fpext', 'fptrunc', 'addrspacecast'):
            t = p.type(); a = parse_value(p, t); p.expect('to'); t2 = p.type()
            I.update(ty=t2, oty=t, a=a)
        elif op == 'alloca':
            if p.peek()[1] == 'inalloca': p.next()
            t = p.type(); n = None
            al = None
            while p.accept(','):
                if p.peek()[1] == 'align': p.next(); al = int(p.next()[1])
                elif p.peek()[1] == 'addrspace': p.next(); p.expect('('); p.next(); p.expect(')')
                else: n = tv()
            I.update(ty=PtrT(t), aty=t, n=n, align=al)
        elif op == 'load':
            while p.peek()[1] in ('volatile', 'atomic'): p.next()
            t = p.type(); p.expect(','); pt = p.type(); a = parse_value(p, pt)
            I.update(ty=t, ptr=a)
        elif op == 'store':
            while p.peek()[1] in ('volatile', 'atomic'): p.next()
            t = p.type(); v = parse_value(p, t); p.expect(','); pt = p.type(); a = parse_value(p, pt)
            I.update(vty=t, v=v, ptr=a)
        elif op == 'getelementptr':
            if p.peek()[1] == 'inbounds': p.next()
            st = p.type(); p.expect(','); bt = p.type(); b = parse_value(p, bt); idx = []
            while p.accept(','):
                if p.peek()[0] == 'meta': break
                idx.append(tv())
            I.update(ty=PtrT(IntT(8)), sty=st, base=b, bty=bt, idx=idx)
        elif op == 'phi':
            while p.peek()[1] in FAST: p.next()
            t = p.type(); inc = []
            while True:
                p.expect('['); v = parse_value(p, t); p.expect(','); l = unq(p.next()[1]); p.expect(']')
                inc.append((v, l))
                if not p.accept(','): break
                if p.peek()[0] == 'meta': break
            I.update(ty=t, inc=inc)
        elif op == 'select':
            while p.peek()[1] in FAST: p.next()
            ct = p.type(); c = parse_value(p, ct); p.expect(','); t = p.type(); a = parse_value(p, t); p.expect(','); t2 = p.type(); b = parse_value(p, t2)
            I.update(ty=t, c=c, a=a, b=b)
        elif op in ('call', 'invoke'):
            while p.peek()[1] in FAST or p.peek()[1] in ('fastcc', 'ccc', 'coldcc'): p.next()
            skip_param_attrs(p)
            rt = p.type()
            fty = None
            if isinstance(rt, FuncT):
                fty = rt; rt = fty.ret
            elif isinstance(rt, PtrT) and isinstance(res(rt.to), FuncT) and p.peek()[1] != '(':
                pass
            callee = parse_value(p, PtrT(IntT(8)))
            p.expect('(')
            args = []
            if not p.accept(')'):
                while True:
                    t = p.type(); info = skip_param_attrs(p)
                    if isinstance(t, MetaT):
                        # metadata arg: skip tokens until , or )
                        depth = 0
                        while not (depth == 0 and p.peek()[1] in (',', ')')):
                            x = p.next()[1]
                            if x in ('(', '{', '['): depth += 1
                            if x in (')', '}', ']'): depth -= 1
                        args.append((t, None, info))
                    else:
                        v = parse_value(p, t); args.append((t, v, info))
                    if p.accept(')'): break
                    p.expect(',')
            I.update(ty=rt, fty=fty, callee=callee, args=args)
            if op == 'invoke':
                while p.peek()[1] != 'to': p.next()
                p.expect('to'); p.expect('label'); I['normal'] = unq(p.next()[1]); p.expect('unwind'); p.expect('label'); I['unwind'] = unq(p.next()[1])
        elif op == 'ret':
            t = p.type()
            I['rty'] = t
            I['v'] = None if isinstance(t, VoidT) else parse_value(p, t)
        elif op == 'br':
            if p.accept('label'):
                I['dest'] = unq(p.next()[1])
            else:
                t = p.type(); c = parse_value(p, t); p.expect(','); p.expect('label'); a = unq(p.next()[1]); p.expect(','); p.expect('label'); b = unq(p.next()[1])
                I.update(c=c, t=a, f=b)
        elif op == 'switch':
            t = p.type(); v = parse_value(p, t); p.expect(','); p.expect('label'); d = unq(p.next()[1]); p.expect('[')
            cases = []
            while not p.accept(']'):
                ct = p.type(); cv = parse_value(p, ct); p.expect(','); p.expect('label'); cases.append((cv, unq(p.next()[1])))
            I.update(sty=t, v=v, default=d, cases=cases)
        elif op == 'unreachable':
            pass
        elif op == 'landingpad':
            t = p.type(); clauses = []; cleanup = False
            while not p.end():
                w = p.next()[1]
                if w == 'cleanup': cleanup = True
                elif w == 'catch': clauses.append(('catch',) + tv())
                elif w == 'filter': clauses.append(('filter',) + tv())
            I.update(ty=t, clauses=clauses, cleanup=cleanup)
        elif op == 'resume':
            I['v'] = tv()
        elif op == 'extractvalue':
            t = p.type(); v = parse_value(p, t); idx = []
            while p.accept(','):
                if p.peek()[0] == 'meta': break
                idx.append(int(p.next()[1]))
            rt = t
            for i in idx:
                r = res(rt); rt = r.fields[i] if isinstance(r, StructT) else r.el
            I.update(ty=rt, aty=t, v=v, idx=idx)
        elif op == 'insertvalue':
            t = p.type(); v = parse_value(p, t); p.expect(','); et = p.type(); ev = parse_value(p, et); idx = []
            while p.accept(','):
                if p.peek()[0] == 'meta': break
                idx.append(int(p.next()[1]))
            I.update(ty=t, v=v, ety=et, ev=ev, idx=idx)
        elif op == 'freeze':
            t = p.type(); v = parse_value(p, t); I.update(ty=t, a=v)
        elif op == 'fence':
            pass
        elif op == 'atomicrmw':
            while p.peek()[1] in ('volatile',): p.next()
            bop = p.next()[1]
            pt = p.type(); a = parse_value(p, pt); p.expect(','); t = p.type(); v = parse_value(p, t)
            I.update(ty=t, ptr=a, v=v, bop=bop)
        elif op == 'cmpxchg':
            while p.peek()[1] in ('volatile', 'weak'): p.next()
            pt = p.type(); a = parse_value(p, pt); p.expect(','); t = p.type(); c = parse_value(p, t); p.expect(','); t2 = p.type(); n = parse_value(p, t2)
            I.update(ty=StructT([t, IntT(1)]), ety=t, ptr=a, cmp=c, new=n)
        else:
            raise Exception('unknown instr %s in %s: %s' % (op, s.f.name, raw))
        return I

    # ------------------------------------------------ emit
    def V(s, t, v): return s.E.val(t, v, s)

    def goto(s, dest):
        """phi copies for edge curblock->dest, then goto"""
        phis = s.phis.get(dest, [])
        out = []
        if phis:
            tmps = []
            for n, I in enumerate(phis):
                val = None
                for (v, l) in I['inc']:
                    if l == s.curblock: val = v; break
                if val is None: raise Exception('phi without edge %s->%s in %s' % (s.curblock, dest, s.f.name))
                if isinstance(val, CUndef):
                    continue
                tmps.append((s.reg(I['dst']), s.E.cty(I['ty']), s.V(I['ty'], val)))
            if len(tmps) == 1:
                out.append('%s = %s;' % (tmps[0][0], tmps[0][2]))
            else:
                for n, (d, ct, e) in enumerate(tmps): out.append('%s phi_t%d = %s;' % (ct, n, e))
                for n, (d, ct, e) in enumerate(tmps): out.append('%s = phi_t%d;' % (d, n))
        out.append('goto %s;' % s.lab(dest))
        return '{ ' + ' '.join(out) + ' }'

    def zero_ret(s):
        # single exit point: a C 'return' in the middle of a function makes CBMC emit a DEAD
        # instruction for every local in scope (quadratic blow-up on large functions)
        return 'goto IR_EXIT;'

    def emit_instr(s, I):
        E = s.E; op = I['op']; c = s.code.append
        d = s.reg(I['dst']) if I['dst'] is not None and I['dst'] in s.regs else None
        t = res(I['ty'])
        if op == 'sub' and isinstance(I['a'], Reg) and isinstance(I['b'], Reg) and I['a'].name in s.p2i and I['b'].name in s.p2i:
            # pointer difference idiom (end - begin): keep it a pointer subtraction so that CBMC can fold it
            c('%s = (uint64_t)(%s - %s);' % (d, s.p2i[I['a'].name], s.p2i[I['b'].name]))
        elif op in ('add', 'sub', 'mul', 'and', 'or', 'xor'):
            sym = {'add': '+', 'sub': '-', 'mul': '*', 'and': '&', 'or': '|', 'xor': '^'}[op]
            c('%s = %s;' % (d, E.mask(t, '(%s)(%s %s %s)' % (E.cty(t), s.V(t, I['a']), sym, s.V(t, I['b'])))))
        elif op in ('udiv', 'urem'):
            c('%s = (%s)(%s %s %s);' % (d, E.cty(t), s.V(t, I['a']), '/' if op == 'udiv' else '%', s.V(t, I['b'])))
        elif op in ('sdiv', 'srem'):
            c('%s = %s;' % (d, E.mask(t, '(%s)(%s %s %s)' % (E.cty(t), E.sx(t, s.V(t, I['a'])), '/' if op == 'sdiv' else '%', E.sx(t, s.V(t, I['b']))))))
        elif op in ('shl', 'lshr'):
            c('%s = %s;' % (d, E.mask(t, '(%s)(%s %s %s)' % (E.cty(t), s.V(t, I['a']), '<<' if op == 'shl' else '>>', s.V(t, I['b'])))))
        elif op == 'ashr':
            c('%s = %s;' % (d, E.mask(t, '(%s)(%s >> %s)' % (E.cty(t), E.sx(t, s.V(t, I['a'])), s.V(t, I['b'])))))
        elif op in ('fadd', 'fsub', 'fmul', 'fdiv'):
            c('%s = %s %s %s;' % (d, s.V(t, I['a']), {'fadd': '+', 'fsub': '-', 'fmul': '*', 'fdiv': '/'}[op], s.V(t, I['b'])))
        elif op == 'fneg':
            c('%s = -%s;' % (d, s.V(t, I['a'])))
        elif op == 'icmp':
            ot = res(I['oty']); a = s.V(ot, I['a']); b = s.V(ot, I['b']); pr = I['pred']
            if isinstance(ot, PtrT):
                if pr in ('eq', 'ne'):
                    c('%s = (%s %s %s);' % (d, a, '==' if pr == 'eq' else '!=', b))
                else:
                    sym = {'ult': '<', 'ule': '<=', 'ugt': '>', 'uge': '>=', 'slt': '<', 'sle': '<=', 'sgt': '>', 'sge': '>='}[pr]
                    c('%s = (%s %s %s);' % (d, a, sym, b))
            elif isinstance(I['a'], Reg) and isinstance(I['b'], Reg) and I['a'].name in s.p2i and I['b'].name in s.p2i:
                sym = {'eq': '==', 'ne': '!=', 'ult': '<', 'ule': '<=', 'ugt': '>', 'uge': '>=', 'slt': '<', 'sle': '<=', 'sgt': '>', 'sge': '>='}[pr]
                c('%s = (%s %s %s);' % (d, s.p2i[I['a'].name], sym, s.p2i[I['b'].name]))
            else:
                if pr in ('eq', 'ne'): c('%s = (%s %s %s);' % (d, a, '==' if pr == 'eq' else '!=', b))
                elif pr[0] == 'u':
                    c('%s = (%s %s %s);' % (d, a, {'ult': '<', 'ule': '<=', 'ugt': '>', 'uge': '>='}[pr], b))
                else:
                    c('%s = (%s %s %s);' % (d, E.sx(ot, a), {'slt': '<', 'sle': '<=', 'sgt': '>', 'sge': '>='}[pr], E.sx(ot, b)))
        elif op == 'fcmp':
            ot = res(I['oty']); a = s.V(ot, I['a']); b = s.V(ot, I['b']); pr = I['pred']
            sym = {'oeq': '==', 'ogt': '>', 'oge': '>=', 'olt': '<', 'ole': '<=', 'one': '!=', 'ueq': '==', 'ugt': '>', 'uge': '>=', 'ult': '<', 'ule': '<=', 'une': '!='}.get(pr)
            c('%s = (%s %s %s);' % (d, a, sym, b))
        elif op in ('trunc', 'zext'):
            c('%s = %s;' % (d, E.mask(t, '(%s)%s' % (E.cty(t), s.V(I['oty'], I['a'])))))
        elif op == 'sext':
            c('%s = %s;' % (d, E.mask(t, '(%s)%s' % (E.cty(t), E.sx(I['oty'], s.V(I['oty'], I['a']))))))
        elif op in ('bitcast', 'addrspacecast'):
            ot = res(I['oty'])
            if isinstance(ot, PtrT) and isinstance(t, PtrT): c('%s = %s;' % (d, s.V(ot, I['a'])))
            else: c('{ %s tmpb = %s; memcpy(&%s, &tmpb, %d); }' % (E.cty(ot), s.V(ot, I['a']), d, sizeof(t)))
        elif op == 'ptrtoint':
            src = s.V(I['oty'], I['a'])
            c('%s = (%s)(uintptr_t)%s;' % (d, E.cty(t), src))
            if t.bits == 64: s.p2i[I['dst']] = src
        elif op == 'inttoptr':
            c('%s = (uint8_t*)(uintptr_t)%s;' % (d, s.V(I['oty'], I['a'])))
        elif op in ('fptoui', 'fptosi', 'uitofp', 'sitofp', 'fpext', 'fptrunc'):
            a = s.V(I['oty'], I['a'])
            if op == 'sitofp': a = E.sx(I['oty'], a)
            if op == 'fptosi': c('%s = (%s)(int64_t)%s;' % (d, E.cty(t), a))
            else: c('%s = (%s)%s;' % (d, E.cty(t), a))
        elif op == 'freeze':
            c('%s = %s;' % (d, s.V(t, I['a'])))
        elif op == 'alloca':
            at = I['aty']; sz = max(sizeof(at), 1); al = I['align'] or alignof(at)
            if I['n'] is None or isinstance(I['n'][1], CInt):
                n = 1 if I['n'] is None else I['n'][1].v
                s.decl.append('  uint8_t %s_mem[%d] __attribute__((aligned(%d)));' % (d, sz * max(n, 1), max(al, 1)))
                c('%s = %s_mem;' % (d, d))
            else:
                c('%s = (uint8_t*)__builtin_alloca((size_t)%s * %d);' % (d, s.V(*I['n']), sz))
        elif op == 'load':
            p = s.V(PtrT(IntT(8)), I['ptr'])
            if isinstance(t, (StructT, ArrT)): c('memcpy(&%s, %s, %d);' % (d, p, sizeof(t)))
            elif isinstance(t, IntT) and t.bits == 1: c('%s = (*(uint8_t*)%s) & 1;' % (d, p))
            elif isinstance(t, PtrT): c('%s = *(uint8_t**)%s;' % (d, p))
            else: c('%s = %s;' % (d, E.mask(t, '*(%s*)%s' % (E.cty(t), p))))
        elif op == 'store':
            vt = res(I['vty']); p = s.V(PtrT(IntT(8)), I['ptr']); v = s.V(vt, I['v'])
            if isinstance(vt, (StructT, ArrT)): c('{ %s tmps = %s; memcpy(%s, &tmps, %d); }' % (E.cty(vt), v, p, sizeof(vt)))
            elif isinstance(vt, PtrT): c('*(uint8_t**)%s = %s;' % (p, v))
            else: c('*(%s*)%s = %s;' % (E.cty(vt), p, v))
        elif op == 'getelementptr':
            c('%s = %s;' % (d, E.gep(I['sty'], s.V(I['bty'], I['base']), I['idx'], s)))
        elif op == 'select':
            c('%s = %s ? %s : %s;' % (d, s.V(IntT(1), I['c']), s.V(t, I['a']), s.V(t, I['b'])))
        elif op == 'extractvalue':
            e = s.V(I['aty'], I['v']); rt = I['aty']
            for i in I['idx']:
                r = res(rt)
                if isinstance(r, StructT): e += '.f%d' % i; rt = r.fields[i]
                else: e += '.e[%d]' % i; rt = r.el
            c('%s = %s;' % (d, e))
        elif op == 'insertvalue':
            c('%s = %s;' % (d, s.V(t, I['v'])))
            e = d; rt = t
            for i in I['idx']:
                r = res(rt)
                if isinstance(r, StructT): e += '.f%d' % i; rt = r.fields[i]
                else: e += '.e[%d]' % i; rt = r.el
            c('%s = %s;' % (e, s.V(I['ety'], I['ev'])))
        elif op == 'br':
            if 'dest' in I: c(s.goto(I['dest']))
            else: c('if (%s) %s else %s' % (s.V(IntT(1), I['c']), s.goto(I['t']), s.goto(I['f'])))
        elif op == 'switch':
            c('switch (%s) {' % s.V(I['sty'], I['v']))
            for cv, l in I['cases']:
                c('  case %s: %s' % (s.V(I['sty'], cv), s.goto(l)))
            c('  default: %s' % s.goto(I['default']))
            c('}')
        elif op == 'ret':
            if I['v'] is None: c('goto IR_EXIT;')
            else: c('ir_ret = %s; goto IR_EXIT;' % s.V(I['rty'], I['v']))
        elif op == 'unreachable':
            c('IR_UNREACHABLE();'); c(s.zero_ret())
        elif op == 'landingpad':
            # selector: first matching catch clause
            sel = '0'
            parts = []
            for cl in I['clauses']:
                if cl[0] == 'catch':
                    if isinstance(cl[2], CNull): parts.append('1 ? 1U :')
                    else:
                        ti = s.V(cl[1], cl[2])
                        parts.append('ir_exc_matches(%s) ? %dU :' % (ti, s.E.typeid(cl[2])))
            sel = ' '.join(parts) + ' 0'
            c('%s.f0 = ir_exc_obj; %s.f1 = (uint32_t)(%s); ir_exc_flag = 0;' % (d, d, sel))
        elif op == 'resume':
            c('ir_exc_flag = 1;'); c(s.zero_ret())
        elif op in ('call', 'invoke'):
            s.emit_call(I, d, t)
        elif op == 'fence':
            pass
        else:
            raise Exception('emit ' + op)

    def emit_call(s, I, d, t):
        E = s.E; c = s.code.append
        callee = I['callee']
        args = [(at, av, info) for (at, av, info) in I['args'] if av is not None]
        nm = E.resolve_alias(callee.name) if isinstance(callee, Glob) else None
        after = None
        def finish(may_throw=True):
            if I['op'] == 'invoke':
                if may_throw: c('if (ir_exc_flag) %s' % s.goto(I['unwind']))
                c(s.goto(I['normal']))
            elif may_throw:
                c('if (ir_exc_flag) %s' % s.zero_ret())
        if nm and nm.startswith('@llvm.'):
            base = nm[6:]
            A = [s.V(at, av) for (at, av, info) in args]
            if base.startswith(('lifetime.', 'dbg.', 'experimental.noalias', 'invariant.', 'assume', 'donothing', 'prefetch', 'var.annotation')):
                if d and base.startswith('invariant.start'): c('%s = 0;' % d)
                return finish(False)
            if base.startswith('memcpy') or base.startswith('memmove'):
                c('if (%s) %s(%s, %s, (size_t)%s);' % (A[2], 'memmove' if base.startswith('memmove') else 'memcpy', A[0], A[1], A[2])); return finish(False)
            if base.startswith('memset'):
                c('if (%s) memset(%s, %s, (size_t)%s);' % (A[2], A[0], A[1], A[2])); return finish(False)
            if base.startswith(('umax', 'umin')):
                c('%s = %s %s %s ? %s : %s;' % (d, A[0], '>' if base.startswith('umax') else '<', A[1], A[0], A[1])); return finish(False)
            if base.startswith(('smax', 'smin')):
                c('%s = %s %s %s ? %s : %s;' % (d, E.sx(t, A[0]), '>' if base.startswith('smax') else '<', E.sx(t, A[1]), A[0], A[1])); return finish(False)
            if base.startswith('abs'):
                c('%s = %s < 0 ? (%s)(0 - %s) : %s;' % (d, E.sx(t, A[0]), E.cty(t), A[0], A[0])); return finish(False)
            if base.startswith('bswap'):
                c('%s = __builtin_bswap%d(%s);' % (d, t.bits, A[0])); return finish(False)
            if base.startswith(('fshl', 'fshr')):
                b = t.bits; sh = '(%s %% %d)' % (A[2], b)
                if base.startswith('fshl'): c('%s = %s ? (%s)((%s << %s) | (%s >> (%d - %s))) : %s;' % (d, sh, E.cty(t), A[0], sh, A[1], b, sh, A[0]))
                else: c('%s = %s ? (%s)((%s << (%d - %s)) | (%s >> %s)) : %s;' % (d, sh, E.cty(t), A[0], b, sh, A[1], sh, A[1]))
                return finish(False)
            if base.startswith(('ctlz', 'cttz', 'ctpop')):
                c('%s = ir_%s%d(%s);' % (d, base[:5].rstrip('.'), t.bits, A[0])); return finish(False)
            m = re.match(r'(u|s)(add|sub|mul)\.with\.overflow\.i(\d+)', base)
            if m:
                sg, o, b = m.group(1), m.group(2), int(m.group(3))
                it = IntT(b)
                if sg == 'u':
                    c('{ %s ovr; %s.f1 = __builtin_%s_overflow(%s, %s, &ovr); %s.f0 = ovr; }' % (E.cty(it), d, o, A[0], A[1], d))
                else:
                    c('{ int%d_t ovr; %s.f1 = __builtin_%s_overflow(%s, %s, &ovr); %s.f0 = (%s)ovr; }' % (b, d, o, E.sx(it, A[0]), E.sx(it, A[1]), d, E.cty(it)))
                return finish(False)
            if base.startswith('eh.typeid.for'):
                c('%s = %dU;' % (d, E.typeid(args[0][1]))); return finish(False)
            if base.startswith('trap'):
                c('IR_TRAP();'); return finish(False)
            if base.startswith('expect'):
                c('%s = %s;' % (d, A[0])); return finish(False)
            if base.startswith('objectsize'):
                c('%s = (%s)-1;' % (d, E.cty(t))); return finish(False)
            if base.startswith('is.constant'):
                c('%s = 0;' % d); return finish(False)
            if base.startswith(('stacksave',)):
                c('%s = 0;' % d); return finish(False)
            if base.startswith(('stackrestore',)):
                return finish(False)
            raise Exception('intrinsic ' + nm)
        # byval copies
        A = []
        for n, (at, av, info) in enumerate(args):
            e = s.V(at, av)
            if 'byval' in info:
                bt = info['byval']; sz = max(sizeof(bt), 1)
                tmp = 'byval_%d' % len(s.decl)
                s.decl.append('  uint8_t %s[%d] __attribute__((aligned(16)));' % (tmp, sz))
                c('memcpy(%s, %s, %d);' % (tmp, e, sz)); e = tmp
            A.append(e)
        lhs = ('%s = ' % d) if d is not None and not isinstance(t, VoidT) else ''
        if nm is not None and nm in E.mod.funcs:
            fdef = E.mod.funcs[nm]
            E.want_func(nm)
            nfixed = len(fdef.params)
            if fdef.vararg and not fdef.defined:
                # external variadic (printf family ...): route through stub macro taking fixed args only
                c('%sIR_VARARG_%s(%s);' % (lhs, E.fname(nm), ', '.join(A)))
            else:
                c('%s%s(%s);' % (lhs, E.fname(nm), ', '.join(A[:nfixed] if not fdef.vararg else A)))
            nothrow = 'nounwind' in fdef.attrs.split() if False else False
            return finish(True)
        # indirect
        fty = I['fty']
        if fty is not None and fty.vararg:
            c('/* indirect variadic call dropped (logging hook) */')
            if lhs: c('%s0;' % lhs)
            return finish(False)
        fp = s.V(PtrT(IntT(8)), callee)
        sig = '%s (*)(%s)' % (E.cty(t), ', '.join(E.cty(at) for (at, av, info) in args) or 'void')
        c('%s((%s)%s)(%s);' % (lhs, sig, fp, ', '.join(A)))
        finish(True)


def main():
    args = sys.argv[1:]
    out = args[0]; roots = []; files = []; skip = set()
    i = 1
    while i < len(args):
        if args[i] == '--roots': roots += args[i + 1].split(','); i += 2
        elif args[i] == '--skip': skip |= set(args[i + 1].split(',')); i += 2
        else: files.append(args[i]); i += 1
    mod = Module()
    for n, fn in enumerate(files):
        txt = open(fn).read()
        # internal/private symbols are per-TU: make them unique
        names = set(re.findall(r'^(@"(?:[^"\\]|\\.)*"|@[-a-zA-Z$._0-9]+) = (?:private|internal) ', txt, re.M))
        names |= set(re.findall(r'^define (?:private|internal) [^@]*(@"(?:[^"\\]|\\.)*"|@[-a-zA-Z$._0-9]+)\(', txt, re.M))
        if names:
            pl = sorted(n_ for n_ in names if n_[1] != '"')
            rx = re.compile(r'(?<![-a-zA-Z$._0-9"])(' + '|'.join(re.escape(x) for x in pl) + r')(?![-a-zA-Z$._0-9"])')
            txt = rx.sub(lambda m: m.group(1) + '.tu%d' % n, txt)
        parse_module(txt, mod)
    E = Emit(mod, skip)
    for r in roots: E.want_func('@' + r)
    bodies = []; protos = []; externs = []
    done = 0
    gdecls = []; ginits = []
    gi = 0
    while done < len(E.need_funcs) or gi < len(E.need_globs):
        while done < len(E.need_funcs):
            name = E.need_funcs[done]; done += 1
            f = mod.funcs[name]
            ret = E.cty(f.ret)
            ps = ', '.join(E.cty(t) for (t, _, _) in f.params)
            if f.vararg: ps = (ps + ', ...') if ps else '...'
            if not f.defined or name[1:] in skip:
                if f.vararg:
                    if cname(name) not in C_RESERVED: externs.append('%s %s(%s); /* variadic external: calls go to IR_VARARG_%s */' % (ret, E.fname(name), ps, E.fname(name)))
                elif cname(name) not in C_RESERVED: externs.append('%s %s(%s); /* external */' % (ret, E.fname(name), ps or 'void'))
                continue
            fe = FnEmit(E, f)
            head, decls, code = fe.run()
            protos.append(head + ';')
            bodies.append(head + '\n{\n' + '\n'.join(decls) + '\n' + '\n'.join('  ' + x for x in code) + '\n}\n')
        while gi < len(E.need_globs):
            E.emit_global(E.need_globs[gi], gdecls, ginits); gi += 1
    with open(out, 'w') as o:
        o.write('/* generated by ir2c.py -- do not edit */\n#include "rt.h"\n')
        for k, v in E.structs.items():
            if v: o.write(v[1] + '\n')
        o.write('\n'.join(externs) + '\n')
        o.write('\n'.join(protos) + '\n')
        o.write('\n'.join(gdecls) + '\n')
        o.write('void ir_init_globals(void) {\n' + '\n'.join('  ' + x for x in ginits) + '\n}\n')
        o.write('\n'.join(bodies))
    sys.stderr.write('ir2c: %d functions, %d globals, %d externals\n' % (len(bodies), len(gdecls), len(externs)))

if __name__ == '__main__':
    main()
