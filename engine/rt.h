/* runtime support for ir2c-generated C */
#ifndef IR_RT_H
#define IR_RT_H
#include <stdint.h>
#include <stddef.h>
#include <string.h>
#include <stdlib.h>


extern int ir_exc_flag;        /* a C++ exception is in flight */
extern uint8_t* ir_exc_obj;    /* thrown object */
extern uint8_t* ir_exc_ti;     /* its std::type_info */
extern int ir_terminated;      /* std::terminate / abort / failed assert reached */
int ir_exc_matches(uint8_t* catch_ti);

#ifndef IR_UNREACHABLE
#define IR_UNREACHABLE() do { __CPROVER_assert(0, "llvm unreachable executed"); __CPROVER_assume(0); } while (0)
#endif
#ifndef IR_TRAP
#define IR_TRAP() do { __CPROVER_assert(0, "llvm.trap"); __CPROVER_assume(0); } while (0)
#endif

static inline uint64_t ir_strlen(uint8_t* p) { return strlen((const char*)p); }
static inline int32_t ir_memcmp(uint8_t* a, uint8_t* b, uint64_t n) { return n ? memcmp(a, b, n) : 0; }
static inline int32_t ir_bcmp(uint8_t* a, uint8_t* b, uint64_t n) { return n ? memcmp(a, b, n) : 0; }
static inline int32_t ir_strcmp(uint8_t* a, uint8_t* b) { return strcmp((const char*)a, (const char*)b); }
static inline uint8_t* ir_malloc(uint64_t n) { uint8_t* p = malloc(n); __CPROVER_assume(p != 0); return p; }
static inline uint8_t* ir_realloc(uint8_t* q, uint64_t n) { uint8_t* p = realloc(q, n); __CPROVER_assume(p != 0); return p; }
static inline void ir_free(uint8_t* p) { free(p); }
static inline int32_t ir_puts(uint8_t* p) { return 0; }
static inline int32_t ir_putchar(int32_t c) { return c; }
#define IR_VARARG_ir_printf(...) 0
#define IR_VARARG_ir_fprintf(...) 0

static inline uint32_t ir_ctlz32(uint32_t x) { uint32_t n = 0; for (int i = 31; i >= 0; i--) { if ((x >> i) & 1) break; n++; } return n; }
static inline uint64_t ir_ctlz64(uint64_t x) { uint64_t n = 0; for (int i = 63; i >= 0; i--) { if ((x >> i) & 1) break; n++; } return n; }
static inline uint32_t ir_cttz32(uint32_t x) { uint32_t n = 0; for (int i = 0; i < 32; i++) { if ((x >> i) & 1) break; n++; } return n; }
static inline uint64_t ir_cttz64(uint64_t x) { uint64_t n = 0; for (int i = 0; i < 64; i++) { if ((x >> i) & 1) break; n++; } return n; }
#endif
void ir_throw_out_of_range_fmt(void);
#define IR_VARARG__ZSt24__throw_out_of_range_fmtPKcz(...) ir_throw_out_of_range_fmt()
#define IR_VARARG__Z14btc_logf_dummyPKcz(...) 0
#define IR_VARARG__Z15btc_logf_stderrPKcz(...) 0
