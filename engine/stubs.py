"""Environment stubs shared by the harnesses.  Every stub that was actually hit during a run is listed in the evidence.
 - hash compression functions: real arithmetic on concrete inputs, uninterpreted function on symbolic ones (hashref.py holds
   the reference-side padding/chaining model over the *same* UFs)
 - libsecp256k1 entry points: uninterpreted predicates/functions (functional consistency only)
 - logging / formatting: no output, empty std::string
"""
import z3, struct, re
from irsym import is_sym, bv, simp, mask, sext, Unsupported, Violation, PathAbort
import hashref
NOT_HANDLED = ('not_handled',)

def cat(xs, bits):
    return simp(z3.Concat(*[bv(x, bits) for x in xs])) if len(xs) > 1 else bv(xs[0], bits)

def b2i(c, bits=32):
    if c is True or c is False: return int(c)
    c = z3.simplify(c)
    if z3.is_true(c): return 1
    if z3.is_false(c): return 0
    return z3.If(c, z3.BitVecVal(1, bits), z3.BitVecVal(0, bits))

def rd(E, st, p, n): return [E.load(st, p + i, 1) for i in range(n)]
def wr(E, st, p, bs):
    for i, b in enumerate(bs): E.store(st, p + i, 1, b)

# ------------------------------------------------------------------ hashes
def install_hash_stubs(E):
    S = E.stubs
    def sha256_transform(E, st, fr, I, A):
        sp, chunk, blocks = A
        if is_sym(blocks): raise Unsupported('symbolic block count')
        if not any(is_sym(x) for x in [E.load(st, sp + 4 * i, 4) for i in range(8)] + rd(E, st, chunk, 64 * blocks)):
            return NOT_HANDLED      # fully concrete: execute the repository's real compression function
        for b in range(blocks):
            state = [E.load(st, sp + 4 * i, 4) for i in range(8)]
            blk = rd(E, st, chunk + 64 * b, 64)
            ns = hashref.sha256_compress(state, blk)
            for i in range(8): E.store(st, sp + 4 * i, 4, ns[i])
        return None
    S['_ZN12_GLOBAL__N_16sha2569TransformEPjPKhm'] = sha256_transform
    def rmd_transform(E, st, fr, I, A):
        sp, chunk = A
        state = [E.load(st, sp + 4 * i, 4) for i in range(5)]
        blk = rd(E, st, chunk, 64)
        if not any(is_sym(x) for x in state + blk): return NOT_HANDLED
        ns = hashref.uf_compress(hashref.RMD160C, state, blk, 5)
        for i in range(5): E.store(st, sp + 4 * i, 4, ns[i])
        return None
    S['_ZN12_GLOBAL__N_19ripemd1609TransformEPjPKh'] = rmd_transform
    def sha1_transform(E, st, fr, I, A):
        sp, chunk = A
        state = [E.load(st, sp + 4 * i, 4) for i in range(5)]
        blk = rd(E, st, chunk, 64)
        if not any(is_sym(x) for x in state + blk): return NOT_HANDLED
        ns = hashref.uf_compress(hashref.SHA1C, state, blk, 5)
        for i in range(5): E.store(st, sp + 4 * i, 4, ns[i])
        return None
    S['_ZN12_GLOBAL__N_14sha19TransformEPjPKh'] = sha1_transform


# ------------------------------------------------------------------ secp256k1 (uninterpreted)
XPARSE = z3.Function('xonly_parse_ok', z3.BitVecSort(256), z3.BoolSort())
# tweaking an x-only key: (internal key, tweak) -> parity bit ++ x coordinate of the result, and whether the operation is defined; the BIP341 check
# 'tweak_add_check(q, parity, p, t)' is expressed through the same functions, so code that computes the tweaked key and compares (instead of calling
# the check) is modelled consistently
TWEAKADD = z3.Function('xonly_tweak_add_pt', z3.BitVecSort(256), z3.BitVecSort(256), z3.BitVecSort(257))
TWEAKADD_OK = z3.Function('xonly_tweak_add_ok', z3.BitVecSort(256), z3.BitVecSort(256), z3.BoolSort())
def TWEAKCHK(q, par, p, t):
    B_ = lambda x, n: x if z3.is_bv(x) else z3.BitVecVal(int(x), n)
    q, par, p, t = B_(q, 256), B_(par, 1), B_(p, 256), B_(t, 256)
    return z3.And(TWEAKADD_OK(p, t), TWEAKADD(p, t) == z3.Concat(par, q))
SCHNORR = z3.Function('schnorr_verify', z3.BitVecSort(512), z3.BitVecSort(256), z3.BitVecSort(256), z3.BoolSort())

def install_secp_stubs(E):
    S = E.stubs
    def xparse(E, st, fr, I, A):
        ctx, out, inp = A
        bs = rd(E, st, inp, 32)
        wr(E, st, out, bs + [0] * 32)
        return b2i(XPARSE(cat(bs, 8)))
    def tweakchk(E, st, fr, I, A):
        ctx, q, parity, key, tweak = A
        qb = cat(rd(E, st, q, 32), 8); kb = cat(rd(E, st, key, 32), 8); tb = cat(rd(E, st, tweak, 32), 8)
        par = bv(parity & 1 if not is_sym(parity) else simp(z3.Extract(0, 0, parity)), 1)
        return b2i(TWEAKCHK(qb, par, kb, tb))
    def schnorr_verify(E, st, fr, I, A):
        ctx, sig, msg, msglen, pk = A
        if is_sym(msglen) or msglen != 32: raise Unsupported('schnorr msglen')
        return b2i(SCHNORR(cat(rd(E, st, sig, 64), 8), cat(rd(E, st, msg, 32), 8), cat(rd(E, st, pk, 32), 8)))
    def tweak_add(E, st, fr, I, A):
        ctx, out, xonly, tweak = A
        kb = cat(rd(E, st, xonly, 32), 8); tb = cat(rd(E, st, tweak, 32), 8)
        r = TWEAKADD(kb, tb)
        xs = [simp(z3.Extract(255 - 8 * i, 248 - 8 * i, r)) for i in range(32)]
        wr(E, st, out, xs + [simp(z3.ZeroExt(7, z3.Extract(256, 256, r)))] + [0] * 31)          # opaque point: x bytes, then the parity
        return b2i(TWEAKADD_OK(kb, tb))
    def from_pubkey(E, st, fr, I, A):
        ctx, out_xonly, parity_p, pk = A
        bs = rd(E, st, pk, 33)
        wr(E, st, out_xonly, bs[:32] + [0] * 32)
        if parity_p: E.store(st, parity_p, 4, simp(z3.ZeroExt(24, bv(bs[32], 8))) if is_sym(bs[32]) else bs[32])
        return 1
    def xonly_serialize(E, st, fr, I, A):
        ctx, out32, xonly = A
        wr(E, st, out32, rd(E, st, xonly, 32)); return 1
    S['secp256k1_xonly_pubkey_parse'] = xparse
    S['secp256k1_xonly_pubkey_tweak_add'] = tweak_add
    S['secp256k1_xonly_pubkey_from_pubkey'] = from_pubkey
    S['secp256k1_xonly_pubkey_serialize'] = xonly_serialize
    S['secp256k1_xonly_pubkey_tweak_add_check'] = tweakchk
    S['secp256k1_schnorrsig_verify'] = schnorr_verify

# ------------------------------------------------------------------ logging / formatting (not the subject)
def install_quiet_stubs(E):
    S = E.stubs
    def empty_sret(E, st, fr, I, A): E.mk_empty_string(E, st, A[0]); return None
    S.prefix('_ZN10tinyformat6formatI', empty_sret)
    for n in ('_ZNK9base_blobILj256EE8ToStringB5cxx11Ev', '_ZNK11XOnlyPubKey8ToStringB5cxx11Ev', '_ZNK9base_blobILj256EE6GetHexB5cxx11Ev',
              '_ZNK9base_blobILj160EE8ToStringB5cxx11Ev', '_ZNK9base_blobILj160EE6GetHexB5cxx11Ev', '_Z6HexStrB5cxx114SpanIKhE',
              '_Z9GetOpNameB5cxx1110opcodetype', '_Z17ScriptErrorStringB5cxx1113ScriptError_t'):
        S[n] = empty_sret
    for n in ('_Z14btc_logf_dummyPKcz', '_Z15btc_logf_stderrPKcz', 'printf', 'fprintf', 'puts', 'putchar', 'fputc', 'fwrite', 'fputs', 'fflush', 'putc'):
        S[n] = lambda E, st, fr, I, A: 0

def install_library_exceptions(E):
    """exception objects constructed by libstdc++ itself (std::ios_base::failure thrown by the serialisation code): the constructor is external, so the
    object gets a model vtable (destructors, what()) - a handler that calls ex.what() through the vptr then works; the message text is not modelled"""
    base = max(E.addrf) + 16 if E.addrf else 0x1000
    names = ['@__verif_exc_dtor', '@__verif_exc_dtor_del', '@__verif_exc_what']
    for k, n in enumerate(names): E.faddr[n] = base + 16 * k; E.addrf[base + 16 * k] = n
    E.stubs['__verif_exc_dtor'] = lambda E, st, fr, I, A: None
    E.stubs['__verif_exc_dtor_del'] = lambda E, st, fr, I, A: None
    E.stubs['__verif_exc_what'] = lambda E, st, fr, I, A: E.cstring(st, b'exception')
    a = (E.gbrk + 15) // 16 * 16; E.gbrk = a + 64
    E.gallocs[a] = (48, 'global'); E.gbases.append(a); E.gbases.sort()
    for k in range(3):
        for i in range(8): E.gmem[a + 8 * k + i] = ((base + 16 * k) >> (8 * i)) & 0xff
    def ctor(E, st, fr, I, A): E.store(st, A[0], 8, a); return None
    for n in ('_ZNSt8ios_base7failureB5cxx11C1EPKcRKSt10error_code', '_ZNSt8ios_base7failureB5cxx11C1ERKNSt7__cxx1112basic_stringIcSt11char_traitsIcESaIcEEERKSt10error_code',
              '_ZNSt8ios_base7failureB5cxx11C1EPKc', '_ZNSt8ios_base7failureB5cxx11C1ERKNSt7__cxx1112basic_stringIcSt11char_traitsIcESaIcEEE',
              '_ZNSt8ios_base7failureB5cxx11C2EPKcRKSt10error_code', '_ZNSt8ios_base7failureB5cxx11C2ERKNSt7__cxx1112basic_stringIcSt11char_traitsIcESaIcEEERKSt10error_code'):
        E.stubs[n] = ctor
    for n in ('_ZNSt8ios_base7failureB5cxx11D1Ev', '_ZNSt8ios_base7failureB5cxx11D2Ev'): E.stubs[n] = lambda E, st, fr, I, A: None
    E.stubs['_ZSt17iostream_categoryv'] = lambda E, st, fr, I, A: 0

def install_all(E, quiet=True, hashes=True, secp=True):
    import irsym
    irsym.install_std_stubs(E)
    irsym.install_string_stubs(E)
    import libc; libc.install(E)
    E.stubs['_ZNKSt13runtime_error4whatEv'] = lambda E, st, fr, I, A: E.cstring(st, b'exception')
    E.stubs['_ZNKSt9exception4whatEv'] = lambda E, st, fr, I, A: E.cstring(st, b'exception')
    E.stubs['_ZNKSt11logic_error4whatEv'] = lambda E, st, fr, I, A: E.cstring(st, b'exception')
    install_library_exceptions(E)
    if quiet: install_quiet_stubs(E)
    if hashes: install_hash_stubs(E)
    if secp: install_secp_stubs(E)
    install_rbtree(E)
    def memory_cleanse(E, st, fr, I, A):
        if is_sym(A[1]) or is_sym(A[0]): raise Unsupported('symbolic memory_cleanse')
        for i in range(A[1]): E.store(st, A[0] + i, 1, 0)
        return None
    E.stubs['_Z14memory_cleansePvm'] = memory_cleanse

# ------------------------------------------------------------------ signature-check oracle of shims/sess.cpp (OracleChecker)
def install_oracle(E):
    """vf_oracle(kind, a, alen, b, blen, c, clen, sigversion) -> fresh 0/1 variable per distinct argument tuple, functionally
    consistent (equal arguments => equal answers); the calls are recorded in st.aux['oracle'] for counterexample replay."""
    def vf_oracle(E, st, fr, I, A):
        kind, a, alen, b, blen, c, clen, sv = A
        for x in (kind, alen, blen, clen, sv):
            if is_sym(x): raise Unsupported('symbolic oracle shape')
        args = (kind, tuple(rd(E, st, a, alen)) if alen else (), tuple(rd(E, st, b, blen)) if blen else (), tuple(rd(E, st, c, clen)) if clen else (), sv)
        if alen == 0: return 0          # an empty signature never verifies (CheckECDSASignature / CheckSchnorrSignature reject it before any curve work)
        calls = list(st.aux.get('oracle', []))
        def same(x, y): return (not is_sym(x) and not is_sym(y) and x == y) or (is_sym(x) and is_sym(y) and x.eq(y))
        for (args2, var) in calls:
            if args2[0] == kind and args2[4] == sv and all(len(p) == len(q) for p, q in zip(args2[1:4], args[1:4])) and \
               all(same(x, y) for p, q in zip(args2[1:4], args[1:4]) for x, y in zip(p, q)):
                return z3.ZeroExt(31, var)
        var = z3.BitVec('orc%d_%d' % (len(calls), E.fresh()), 1)
        for (args2, var2) in calls:
            if args2[0] == kind and args2[4] == sv and all(len(p) == len(q) for p, q in zip(args2[1:4], args[1:4])):
                eqs = [bv(x, 8) == bv(y, 8) for p, q in zip(args2[1:4], args[1:4]) for x, y in zip(p, q)]
                st.pc.append(z3.Implies(z3.And(*eqs) if eqs else z3.BoolVal(True), var == var2)); st.model = None
        calls.append((args, var)); st.aux['oracle'] = calls
        return z3.ZeroExt(31, var)
    E.stubs['vf_oracle'] = vf_oracle

# ------------------------------------------------------------------ oracle as uninterpreted functions (C02: the reference names the same function)
_ORC = {}
def orc_app(kind, a, b, c, sv):
    """Bool term ORACLE_kind(a, b, c, sv) for byte lists a, b, c (lengths are part of the function's identity)"""
    if len(a) == 0: return z3.BoolVal(False)     # an empty signature never verifies
    key = (kind, len(a), len(b), len(c), sv)
    n = 8 * (len(a) + len(b) + len(c))
    F = _ORC.get(key)
    if F is None:
        F = z3.Function('orc_%d_%d_%d_%d_%d' % key, z3.BitVecSort(max(n, 1)), z3.BoolSort()); _ORC[key] = F
    arg = cat(list(a) + list(b) + list(c), 8) if n else z3.BitVecVal(0, 1)
    return F(arg)

def install_oracle_uf(E):
    def vf_oracle(E, st, fr, I, A):
        kind, a, alen, b, blen, c, clen, sv = A
        for k, x in enumerate(A):
            if is_sym(x):
                args = [(at, av, info) for (at, av, info) in I['args'] if av is not None]
                return ('forks', E.fork_arg(st, fr, I, args, k, 'oracle argument'))
        aa = rd(E, st, a, alen) if alen else []; bb = rd(E, st, b, blen) if blen else []; cc = rd(E, st, c, clen) if clen else []
        t = orc_app(kind, aa, bb, cc, sv)
        calls = list(st.aux.get('oracle', [])); calls.append(((kind, tuple(aa), tuple(bb), tuple(cc), sv), t)); st.aux['oracle'] = calls
        return b2i(t)
    E.stubs['vf_oracle'] = vf_oracle

# ------------------------------------------------------------------ libstdc++ red-black tree runtime (std::map / std::set), precise on concrete pointers
def install_rbtree(E):
    RED, BLACK = 0, 1
    def g(E, st, n, off): return E.load(st, n + off, 8)
    def s_(E, st, n, off, v): E.store(st, n + off, 8, v)
    def color(E, st, n): return E.load(st, n, 4)
    def setcolor(E, st, n, c): E.store(st, n, 4, c)
    P, L, R_ = 8, 16, 24
    def rot_left(E, st, x, hdr):
        y = g(E, st, x, R_)
        s_(E, st, x, R_, g(E, st, y, L))
        if g(E, st, y, L): s_(E, st, g(E, st, y, L), P, x)
        s_(E, st, y, P, g(E, st, x, P))
        if x == g(E, st, hdr, P): s_(E, st, hdr, P, y)
        elif x == g(E, st, g(E, st, x, P), L): s_(E, st, g(E, st, x, P), L, y)
        else: s_(E, st, g(E, st, x, P), R_, y)
        s_(E, st, y, L, x); s_(E, st, x, P, y)
    def rot_right(E, st, x, hdr):
        y = g(E, st, x, L)
        s_(E, st, x, L, g(E, st, y, R_))
        if g(E, st, y, R_): s_(E, st, g(E, st, y, R_), P, x)
        s_(E, st, y, P, g(E, st, x, P))
        if x == g(E, st, hdr, P): s_(E, st, hdr, P, y)
        elif x == g(E, st, g(E, st, x, P), R_): s_(E, st, g(E, st, x, P), R_, y)
        else: s_(E, st, g(E, st, x, P), L, y)
        s_(E, st, y, R_, x); s_(E, st, x, P, y)
    def insert(E, st, fr, I, A):
        left, x, p, hdr = A
        for k, v in enumerate(A):
            if is_sym(v):
                args = [(at, av, info) for (at, av, info) in I['args'] if av is not None]
                return ('forks', E.fork_arg(st, fr, I, args, k, 'rb-tree insert argument'))
        s_(E, st, x, P, p); s_(E, st, x, L, 0); s_(E, st, x, R_, 0); setcolor(E, st, x, RED)
        if left & 1:
            s_(E, st, p, L, x)
            if p == hdr: s_(E, st, hdr, P, x); s_(E, st, hdr, R_, x)
            elif p == g(E, st, hdr, L): s_(E, st, hdr, L, x)
        else:
            s_(E, st, p, R_, x)
            if p == g(E, st, hdr, R_): s_(E, st, hdr, R_, x)
        while x != g(E, st, hdr, P) and color(E, st, g(E, st, x, P)) == RED:
            xp = g(E, st, x, P); xpp = g(E, st, xp, P)
            if xp == g(E, st, xpp, L):
                y = g(E, st, xpp, R_)
                if y and color(E, st, y) == RED:
                    setcolor(E, st, xp, BLACK); setcolor(E, st, y, BLACK); setcolor(E, st, xpp, RED); x = xpp
                else:
                    if x == g(E, st, xp, R_): x = xp; rot_left(E, st, x, hdr)
                    setcolor(E, st, g(E, st, x, P), BLACK); setcolor(E, st, xpp, RED); rot_right(E, st, xpp, hdr)
            else:
                y = g(E, st, xpp, L)
                if y and color(E, st, y) == RED:
                    setcolor(E, st, xp, BLACK); setcolor(E, st, y, BLACK); setcolor(E, st, xpp, RED); x = xpp
                else:
                    if x == g(E, st, xp, L): x = xp; rot_right(E, st, x, hdr)
                    setcolor(E, st, g(E, st, x, P), BLACK); setcolor(E, st, xpp, RED); rot_left(E, st, xpp, hdr)
        setcolor(E, st, g(E, st, hdr, P), BLACK)
        return None
    E.stubs['_ZSt29_Rb_tree_insert_and_rebalancebPSt18_Rb_tree_node_baseS0_RS_'] = insert
    def incr(E, st, fr, I, A):
        x = A[0]
        if is_sym(x): raise Unsupported('symbolic tree node')
        if g(E, st, x, R_):
            x = g(E, st, x, R_)
            while g(E, st, x, L): x = g(E, st, x, L)
        else:
            y = g(E, st, x, P)
            while x == g(E, st, y, R_): x = y; y = g(E, st, y, P)
            if g(E, st, x, R_) != y: x = y
        return x
    E.stubs['_ZSt18_Rb_tree_incrementPSt18_Rb_tree_node_base'] = incr
    E.stubs['_ZSt18_Rb_tree_incrementPKSt18_Rb_tree_node_base'] = incr
    def decr(E, st, fr, I, A):
        x = A[0]
        if is_sym(x): raise Unsupported('symbolic tree node')
        if color(E, st, x) == RED and g(E, st, g(E, st, x, P), P) == x: return g(E, st, x, R_)
        if g(E, st, x, L):
            y = g(E, st, x, L)
            while g(E, st, y, R_): y = g(E, st, y, R_)
            return y
        y = g(E, st, x, P)
        while x == g(E, st, y, L): x = y; y = g(E, st, y, P)
        return y
    E.stubs['_ZSt18_Rb_tree_decrementPSt18_Rb_tree_node_base'] = decr
    E.stubs['_ZSt18_Rb_tree_decrementPKSt18_Rb_tree_node_base'] = decr
