"""libc stubs (precise models; symbolic characters are supported where the C semantics can be expressed as a term
without forking, otherwise the stub asks the solver which single behaviour is feasible and reports Unsupported if several)."""
import z3
from irsym import is_sym, bv, simp, mask, sext, Unsupported, Violation, NeedFork

def _definitely(E, st, cond):
    """cond holds on every input of this path"""
    return not E.feasible(st, z3.Not(cond))

def cchars(E, st, p, limit=1 << 16):
    """characters of a C string whose length is the same on every input of the path"""
    out = []
    while len(out) < limit:
        b = E.load(st, p + len(out), 1)
        if is_sym(b) and b.decl().name().startswith('uninit_'):
            raise Violation('uninit', 'C string function reads a byte that was never written (at %#x)' % (p + len(out)))
        if not is_sym(b):
            if b == 0: return out
        else:
            nz = st.aux.get('nz', frozenset()); hk = b.get_id()
            if hk not in nz:
                if E.feasible(st, b == 0):
                    if E.feasible(st, b != 0): raise NeedFork(b == 0)
                    return out
                st.aux['nz'] = nz | {hk}         # proven non-NUL under this path condition (which only grows)
        out.append(b)
    raise Unsupported('unterminated C string')

def install(E):
    S = E.stubs
    def is_digit_c(E, st, b):
        if not is_sym(b): return 48 <= b <= 57
        d = z3.And(z3.UGE(b, 48), z3.ULE(b, 57))
        if _definitely(E, st, d): return True
        if _definitely(E, st, z3.Not(d)): return False
        raise NeedFork(d)
    def atoll_bits(bits):
        def f(E, st, fr, I, A):
            p = A[0]; i = 0; neg = False
            def decide(cond):
                if _definitely(E, st, cond): return True
                if _definitely(E, st, z3.Not(cond)): return False
                raise NeedFork(cond)
            while True:
                b = E.load(st, p + i, 1)
                if is_sym(b):
                    if b.decl().name().startswith('uninit_'): raise Violation('uninit', 'atoi/atoll reads a byte that was never written')
                    ws = z3.Or(b == 32, z3.And(z3.UGE(b, 9), z3.ULE(b, 13)))
                    if decide(ws): i += 1; continue
                    break
                if b in (32, 9, 10, 11, 12, 13): i += 1; continue
                break
            b = E.load(st, p + i, 1)
            if is_sym(b):
                if decide(b == 45): neg = True; i += 1
                elif decide(b == 43): i += 1
            elif b in (43, 45): neg = b == 45; i += 1
            val = 0
            while True:
                b = E.load(st, p + i, 1)
                if not is_digit_c(E, st, b): break
                d = (b - 48) if not is_sym(b) else z3.ZeroExt(bits - 8, b - 48)
                val = val * 10 + d
                if is_sym(val): val = simp(val)
                i += 1
                if i > 40: raise Unsupported('decimal string too long')
            if is_sym(val): return simp(-val if neg else val)
            v = -val if neg else val
            if bits == 64: v = max(-(1 << 63), min((1 << 63) - 1, v))          # glibc strtoll/atoll saturate on overflow
            return mask(v, bits)
        return f
    S['atoll'] = atoll_bits(64); S['atol'] = atoll_bits(64); S['atoi'] = atoll_bits(32)
    def strtoll(E, st, fr, I, A):
        if is_sym(A[2]) or A[2] != 10 or A[1] != 0: raise Unsupported('strtoll with endptr/base')
        return atoll_bits(64)(E, st, fr, I, [A[0]])
    S['strtoll'] = strtoll; S['strtol'] = strtoll

    def fmt_decimal(E, st, v, bits):
        """decimal characters of the signed value v; forks are avoided: the number of digits must be the same on the whole path"""
        if not is_sym(v): return list(str(sext(mask(v, bits), bits)).encode())
        neg = v < 0
        if _definitely(E, st, neg): sign = [45]; mag = simp(-v)
        elif _definitely(E, st, z3.Not(neg)): sign = []; mag = v
        else: raise NeedFork(neg)
        for nd in range(1, 21):
            lo = 10 ** (nd - 1) if nd > 1 else 0; hi = 10 ** nd
            c = z3.And(z3.UGE(mag, lo), z3.ULT(mag, hi)) if hi < (1 << bits) else z3.UGE(mag, lo)
            if E.feasible(st, c):
                if not _definitely(E, st, c): raise NeedFork(c)
                return sign + [simp(z3.Extract(7, 0, z3.URem(z3.UDiv(mag, 10 ** (nd - 1 - k)), 10)) + 48) for k in range(nd)]
        raise Unsupported('fmt_decimal')
    def snprintf(E, st, fr, I, A):
        buf, n = A[0], A[1]
        fmt = bytes(cchars(E, st, A[2]))
        if is_sym(n): raise Unsupported('symbolic snprintf size')
        out = []; ai = 3; i = 0
        while i < len(fmt):
            c = fmt[i]
            if c != 37: out.append(c); i += 1; continue
            j = i + 1
            while j < len(fmt) and chr(fmt[j]) in '0123456789-+ #.': j += 1
            mod = b''
            while j < len(fmt) and chr(fmt[j]) in 'lhzjt': mod += bytes([fmt[j]]); j += 1
            conv = chr(fmt[j]); spec = fmt[i + 1:j - len(mod)]
            if conv == '%': out.append(37)
            elif conv in 'di' and spec == b'':
                bits = 64 if mod in (b'l', b'll', b'z', b'j') else 32
                v = A[ai]; ai += 1
                if is_sym(v) and v.size() > bits: v = simp(z3.Extract(bits - 1, 0, v))
                out += fmt_decimal(E, st, v if is_sym(v) else mask(v, bits), bits)
            elif conv == 's' and spec == b'':
                out += cchars(E, st, A[ai]); ai += 1
            elif conv == 'x' and spec == b'02' and not is_sym(A[ai]):
                out += list(b'%02x' % (A[ai] & 0xffffffff)); ai += 1
            else:
                if hasattr(E, 'fmt'): out = E.fmt(E, st, A[2], A, 3); break
                raise Unsupported('snprintf format %r' % fmt)
            i = j + 1
        w = out[:max(n - 1, 0)]
        for k, ch in enumerate(w): E.store(st, buf + k, 1, ch)
        if n: E.store(st, buf + len(w), 1, 0)
        return len(out)
    S['snprintf'] = snprintf
    def strcmp_n(limit_arg):
        def f(E, st, fr, I, A):
            a, b = A[0], A[1]; lim = A[2] if limit_arg else None
            if lim is not None and is_sym(lim): raise Unsupported('symbolic strncmp length')
            x = cchars(E, st, a); y = cchars(E, st, b)
            if lim is not None: x = x[:lim]; y = y[:lim]
            x = x + [0]; y = y + [0]
            n = min(len(x), len(y))
            r = 0
            for i in reversed(range(n)):
                p, q = x[i], y[i]
                if not is_sym(p) and not is_sym(q):
                    if p != q: r = 1 if p > q else mask(-1, 32)
                    continue
                P = bv(p, 8); Q = bv(q, 8)
                r = z3.If(P == Q, bv(r, 32), z3.If(z3.UGT(P, Q), z3.BitVecVal(1, 32), z3.BitVecVal(mask(-1, 32), 32)))
            return simp(r) if is_sym(r) else r
        return f
    S['strcmp'] = strcmp_n(False); S['strncmp'] = strcmp_n(True)
    def strndup(E, st, fr, I, A):
        p, n = A
        if is_sym(n):
            args = [(at, av, info) for (at, av, info) in I['args'] if av is not None]
            return ('forks', E.fork_arg(st, fr, I, args, 1, 'strndup length'))
        out = []
        for i in range(n):
            b = E.load(st, p + i, 1)
            if not is_sym(b) and b == 0: break
            if is_sym(b) and E.feasible(st, b == 0): raise Unsupported('strndup over a possibly-NUL symbolic character')
            out.append(b)
        a = E.alloc(st, len(out) + 1, 'heap')          # malloc'ed: must be released with free()
        st.allocs[a] = (st.allocs[a][0], 'malloc')
        for i, b in enumerate(out): E.store(st, a + i, 1, b)
        E.store(st, a + len(out), 1, 0); return a
    S['strndup'] = strndup
    def strdup(E, st, fr, I, A):
        cs = cchars(E, st, A[0]); a = E.alloc(st, len(cs) + 1, 'heap'); st.allocs[a] = (st.allocs[a][0], 'malloc')
        for i, b in enumerate(cs): E.store(st, a + i, 1, b)
        E.store(st, a + len(cs), 1, 0); return a
    S['strdup'] = strdup
    def strlen(E, st, fr, I, A): return len(cchars(E, st, A[0]))
    S['strlen'] = strlen
    def strchr(E, st, fr, I, A):
        cs = cchars(E, st, A[0]); c = A[1] & 0xff if not is_sym(A[1]) else None
        if c is None or any(is_sym(x) for x in cs): raise Unsupported('symbolic strchr')
        for i, x in enumerate(cs + [0]):
            if x == c: return A[0] + i
        return 0
    S['strchr'] = strchr
    def memchr(E, st, fr, I, A):
        p, c, n = A
        if is_sym(n) or is_sym(c): raise Unsupported('symbolic memchr')
        for i in range(n):
            b = E.load(st, p + i, 1)
            if is_sym(b):
                if E.feasible(st, b == (c & 0xff)):
                    if E.feasible(st, b != (c & 0xff)): raise Unsupported('memchr over symbolic byte')
                    return p + i
                continue
            if b == (c & 0xff): return p + i
        return 0
    S['memchr'] = memchr
    S['isatty'] = lambda E, st, fr, I, A: st.aux.get('isatty', {}).get(A[0], 0)
    S['fileno'] = lambda E, st, fr, I, A: 0
    S['getenv'] = lambda E, st, fr, I, A: 0
    S['secure_getenv'] = S['getenv']
