"""libc stubs (precise models; symbolic characters are supported where the C semantics can be expressed as a term
without forking, otherwise the stub asks the solver which single behaviour is feasible and reports Unsupported if several)."""
import z3
from irsym import is_sym, bv, simp, mask, sext, Unsupported, Violation, NeedFork

def _definitely(E, st, cond):
    """cond holds on every input of this path"""
    return not E.feasible(st, z3.Not(cond))

def cchars(E, st, p, limit=1 << 16):
    """characters of a C string whose length is the same on every input of the path"""
    out = []
    while len(out) < limit:
        b = E.load(st, p + len(out), 1)
        if is_sym(b) and b.decl().name().startswith('uninit_'):
            raise Violation('uninit', 'C string function reads a byte that was never written (at %#x)' % (p + len(out)))
        if not is_sym(b):
            if b == 0: return out
        else:
            nz = st.aux.get('nz', frozenset()); hk = b.get_id()
            if hk not in nz:
                if E.feasible(st, b == 0):
                    if E.feasible(st, b != 0): raise NeedFork(b == 0)
                    return out
                st.aux['nz'] = nz | {hk}         # proven non-NUL under this path condition (which only grows)
        out.append(b)
    raise Unsupported('unterminated C string')

def install(E):
    S = E.stubs
    def is_digit_c(E, st, b):
        if not is_sym(b): return 48 <= b <= 57
        d = z3.And(z3.UGE(b, 48), z3.ULE(b, 57))
        if _definitely(E, st, d): return True
        if _definitely(E, st, z3.Not(d)): return False
        raise NeedFork(d)
    def parse_decimal(E, st, p, bits, unsigned=False):
        """C decimal parse at p: optional white space, optional sign, digits.  Returns (value, index one past the last digit or 0 if there is no digit)"""
        i = 0; neg = False
        def decide(cond):
            if _definitely(E, st, cond): return True
            if _definitely(E, st, z3.Not(cond)): return False
            raise NeedFork(cond)
        while True:
            b = E.load(st, p + i, 1)
            if is_sym(b):
                if b.decl().name().startswith('uninit_'): raise Violation('uninit', 'atoi/atoll/strtol reads a byte that was never written')
                ws = z3.Or(b == 32, z3.And(z3.UGE(b, 9), z3.ULE(b, 13)))
                if decide(ws): i += 1; continue
                break
            if b in (32, 9, 10, 11, 12, 13): i += 1; continue
            break
        b = E.load(st, p + i, 1)
        if is_sym(b):
            if decide(b == 45): neg = True; i += 1
            elif decide(b == 43): i += 1
        elif b in (43, 45): neg = b == 45; i += 1
        val = 0; nd = 0
        while True:
            b = E.load(st, p + i, 1)
            if not is_digit_c(E, st, b): break
            d = (b - 48) if not is_sym(b) else z3.ZeroExt(bits - 8, b - 48)
            val = val * 10 + d
            if is_sym(val): val = simp(val)
            i += 1; nd += 1
            if i > 40: raise Unsupported('decimal string too long')
        end = i if nd else 0
        if is_sym(val): return simp(-val if neg else val), end
        if unsigned: return mask(-min(val, (1 << 64) - 1) if neg else min(val, (1 << 64) - 1), 64), end          # strtoul: saturates at ULONG_MAX, a minus sign negates in unsigned arithmetic
        v = -val if neg else val
        if bits == 64: v = max(-(1 << 63), min((1 << 63) - 1, v))          # glibc strtoll/atoll saturate on overflow
        return mask(v, bits), end
    def atoll_bits(bits):
        def f(E, st, fr, I, A): return parse_decimal(E, st, A[0], bits)[0]
        return f
    S['atoll'] = atoll_bits(64); S['atol'] = atoll_bits(64); S['atoi'] = atoll_bits(32)
    def strtoll(E, st, fr, I, A):
        if is_sym(A[2]) or A[2] != 10: raise Unsupported('strtol with a base other than 10')
        v, end = parse_decimal(E, st, A[0], 64)
        if A[1] != 0: E.store(st, A[1], 8, A[0] + end)          # *endptr = first character not consumed (nptr itself if there was no digit)
        return v
    S['strtoll'] = strtoll; S['strtol'] = strtoll

    def fmt_decimal(E, st, v, bits):
        """decimal characters of the signed value v; forks are avoided: the number of digits must be the same on the whole path"""
        if not is_sym(v): return list(str(sext(mask(v, bits), bits)).encode())
        neg = v < 0
        if _definitely(E, st, neg): sign = [45]; mag = simp(-v)
        elif _definitely(E, st, z3.Not(neg)): sign = []; mag = v
        else: raise NeedFork(neg)
        for nd in range(1, 21):
            lo = 10 ** (nd - 1) if nd > 1 else 0; hi = 10 ** nd
            c = z3.And(z3.UGE(mag, lo), z3.ULT(mag, hi)) if hi < (1 << bits) else z3.UGE(mag, lo)
            if E.feasible(st, c):
                if not _definitely(E, st, c): raise NeedFork(c)
                return sign + [simp(z3.Extract(7, 0, z3.URem(z3.UDiv(mag, 10 ** (nd - 1 - k)), 10)) + 48) for k in range(nd)]
        raise Unsupported('fmt_decimal')
    def snprintf(E, st, fr, I, A):
        buf, n = A[0], A[1]
        fmt = bytes(cchars(E, st, A[2]))
        if is_sym(n):
            args = [(at, av, info) for (at, av, info) in I['args'] if av is not None]
            return ('forks', E.fork_arg(st, fr, I, args, 1, 'snprintf size'))
        out = []; ai = 3; i = 0
        while i < len(fmt):
            c = fmt[i]
            if c != 37: out.append(c); i += 1; continue
            j = i + 1
            while j < len(fmt) and chr(fmt[j]) in '0123456789-+ #.*': j += 1
            mod = b''
            while j < len(fmt) and chr(fmt[j]) in 'lhzjt': mod += bytes([fmt[j]]); j += 1
            conv = chr(fmt[j]); spec = fmt[i + 1:j - len(mod)]
            if conv == '%': out.append(37)
            elif conv in 'di' and spec == b'':
                bits = 64 if mod in (b'l', b'll', b'z', b'j') else 32
                v = A[ai]; ai += 1
                if is_sym(v) and v.size() > bits: v = simp(z3.Extract(bits - 1, 0, v))
                out += fmt_decimal(E, st, v if is_sym(v) else mask(v, bits), bits)
            elif conv == 's' and spec == b'':
                out += cchars(E, st, A[ai]); ai += 1
            elif conv == 's' and spec == b'.*':
                # precision taken from an int argument: at most that many characters of the string (which need not be NUL terminated within them)
                prec = A[ai]; ai += 1
                if is_sym(prec):
                    args = [(at, av, info) for (at, av, info) in I['args'] if av is not None]
                    return ('forks', E.fork_arg(st, fr, I, args, ai - 1, 'snprintf precision'))
                prec = sext(mask(prec, 32), 32); p = A[ai]; ai += 1
                if prec < 0: out += cchars(E, st, p)
                else:
                    for k_ in range(prec):
                        b = E.load(st, p + k_, 1)
                        if is_sym(b):
                            if E.feasible(st, b == 0):
                                if E.feasible(st, b != 0): raise NeedFork(b == 0)
                                break
                        elif b == 0: break
                        out.append(b)
            elif conv == 's' and spec[:1] == b'.' and spec[1:].isdigit():
                prec = int(spec[1:]); p = A[ai]; ai += 1
                for k_ in range(prec):
                    b = E.load(st, p + k_, 1)
                    if is_sym(b):
                        if E.feasible(st, b == 0):
                            if E.feasible(st, b != 0): raise NeedFork(b == 0)
                            break
                    elif b == 0: break
                    out.append(b)
            elif conv == 'x' and spec == b'02' and not is_sym(A[ai]):
                out += list(b'%02x' % (A[ai] & 0xffffffff)); ai += 1
            else:
                if hasattr(E, 'fmt'): out = E.fmt(E, st, A[2], A, 3); break
                raise Unsupported('snprintf format %r' % fmt)
            i = j + 1
        w = out[:max(n - 1, 0)]
        for k, ch in enumerate(w): E.store(st, buf + k, 1, ch)
        if n: E.store(st, buf + len(w), 1, 0)
        return len(out)
    S['snprintf'] = snprintf
    def strcmp_n(limit_arg):
        def f(E, st, fr, I, A):
            a, b = A[0], A[1]; lim = A[2] if limit_arg else None
            if lim is not None and is_sym(lim): raise Unsupported('symbolic strncmp length')
            x = cchars(E, st, a); y = cchars(E, st, b)
            if lim is not None: x = x[:lim]; y = y[:lim]
            x = x + [0]; y = y + [0]
            n = min(len(x), len(y))
            r = 0
            for i in reversed(range(n)):
                p, q = x[i], y[i]
                if not is_sym(p) and not is_sym(q):
                    if p != q: r = 1 if p > q else mask(-1, 32)
                    continue
                P = bv(p, 8); Q = bv(q, 8)
                r = z3.If(P == Q, bv(r, 32), z3.If(z3.UGT(P, Q), z3.BitVecVal(1, 32), z3.BitVecVal(mask(-1, 32), 32)))
            return simp(r) if is_sym(r) else r
        return f
    S['strcmp'] = strcmp_n(False); S['strncmp'] = strcmp_n(True)
    def strndup(E, st, fr, I, A):
        p, n = A
        if is_sym(n):
            args = [(at, av, info) for (at, av, info) in I['args'] if av is not None]
            return ('forks', E.fork_arg(st, fr, I, args, 1, 'strndup length'))
        out = []
        for i in range(n):
            b = E.load(st, p + i, 1)
            if not is_sym(b) and b == 0: break
            if is_sym(b) and E.feasible(st, b == 0): raise Unsupported('strndup over a possibly-NUL symbolic character')
            out.append(b)
        a = E.alloc(st, len(out) + 1, 'heap')          # malloc'ed: must be released with free()
        st.allocs[a] = (st.allocs[a][0], 'malloc')
        for i, b in enumerate(out): E.store(st, a + i, 1, b)
        E.store(st, a + len(out), 1, 0); return a
    S['strndup'] = strndup
    def strdup(E, st, fr, I, A):
        cs = cchars(E, st, A[0]); a = E.alloc(st, len(cs) + 1, 'heap'); st.allocs[a] = (st.allocs[a][0], 'malloc')
        for i, b in enumerate(cs): E.store(st, a + i, 1, b)
        E.store(st, a + len(cs), 1, 0); return a
    S['strdup'] = strdup
    def strlen(E, st, fr, I, A): return len(cchars(E, st, A[0]))
    S['strlen'] = strlen
    def strchr(E, st, fr, I, A):
        cs = cchars(E, st, A[0]); c = A[1] & 0xff if not is_sym(A[1]) else None
        if c is None or any(is_sym(x) for x in cs): raise Unsupported('symbolic strchr')
        for i, x in enumerate(cs + [0]):
            if x == c: return A[0] + i
        return 0
    S['strchr'] = strchr
    def memchr(E, st, fr, I, A):
        p, c, n = A
        if is_sym(n) or is_sym(c): raise Unsupported('symbolic memchr')
        for i in range(n):
            b = E.load(st, p + i, 1)
            if is_sym(b):
                if E.feasible(st, b == (c & 0xff)):
                    if E.feasible(st, b != (c & 0xff)): raise Unsupported('memchr over symbolic byte')
                    return p + i
                continue
            if b == (c & 0xff): return p + i
        return 0
    S['memchr'] = memchr

    # ------------------------------------------------------------------ further C library pieces a refactoring of the code under test may reach for
    def galloc(size):
        a = (E.gbrk + 15) // 16 * 16; E.gbrk = a + size + 32
        E.gallocs[a] = (size, 'global'); E.gbases.append(a); E.gbases.sort()
        return a
    # <ctype.h>: glibc classification / case tables, indexed -128..255 (table_load turns a symbolic index into an ite chain)
    ISupper, ISlower, ISalpha, ISdigit, ISxdigit, ISspace, ISprint, ISgraph, ISblank, IScntrl, ISpunct, ISalnum = 0x100, 0x200, 0x400, 0x800, 0x1000, 0x2000, 0x4000, 0x8000, 0x1, 0x2, 0x4, 0x8
    def cls(c):
        if c < 0 or c > 127: return 0
        ch = chr(c); f = 0
        if 'A' <= ch <= 'Z': f |= ISupper | ISalpha | ISalnum
        if 'a' <= ch <= 'z': f |= ISlower | ISalpha | ISalnum
        if '0' <= ch <= '9': f |= ISdigit | ISalnum
        if ch in '0123456789abcdefABCDEF': f |= ISxdigit
        if ch in ' \t\n\v\f\r': f |= ISspace
        if ch in ' \t': f |= ISblank
        if 32 <= c < 127: f |= ISprint
        if 33 <= c < 127: f |= ISgraph
        if c < 32 or c == 127: f |= IScntrl
        if 33 <= c < 127 and not ch.isalnum(): f |= ISpunct
        return f
    tb = galloc(384 * 2); tl = galloc(384 * 4); tu = galloc(384 * 4)
    for k in range(384):
        c = k - 128
        v = cls(c)
        E.gmem[tb + 2 * k] = v & 0xff; E.gmem[tb + 2 * k + 1] = v >> 8
        lo = c + 32 if 65 <= c <= 90 else c; up = c - 32 if 97 <= c <= 122 else c
        for i in range(4): E.gmem[tl + 4 * k + i] = ((lo & 0xffffffff) >> (8 * i)) & 0xff; E.gmem[tu + 4 * k + i] = ((up & 0xffffffff) >> (8 * i)) & 0xff
    pb = galloc(8); pl = galloc(8); pu = galloc(8)
    for (pp, t, w) in ((pb, tb, 2), (pl, tl, 4), (pu, tu, 4)):
        for i in range(8): E.gmem[pp + i] = ((t + 128 * w) >> (8 * i)) & 0xff
    S['__ctype_b_loc'] = lambda E, st, fr, I, A: pb
    S['__ctype_tolower_loc'] = lambda E, st, fr, I, A: pl
    S['__ctype_toupper_loc'] = lambda E, st, fr, I, A: pu
    def ctype_fn(flag):
        def f(E, st, fr, I, A):
            c = A[0]
            if not is_sym(c): return 1 if cls(sext(mask(c, 32), 32)) & flag else 0
            conds = [c == k for k in range(128) if cls(k) & flag]
            return simp(z3.If(z3.Or(*conds), z3.BitVecVal(1, 32), z3.BitVecVal(0, 32))) if conds else 0
        return f
    for nm, fl in (('isupper', ISupper), ('islower', ISlower), ('isalpha', ISalpha), ('isdigit', ISdigit), ('isxdigit', ISxdigit), ('isspace', ISspace), ('isprint', ISprint), ('isgraph', ISgraph),
                   ('isblank', ISblank), ('iscntrl', IScntrl), ('ispunct', ISpunct), ('isalnum', ISalnum)): S[nm] = ctype_fn(fl)
    def tolower(E, st, fr, I, A):
        c = A[0]
        if not is_sym(c): return c + 32 if 65 <= c <= 90 else c
        return simp(z3.If(z3.And(c >= 65, c <= 90), c + 32, c))
    def toupper(E, st, fr, I, A):
        c = A[0]
        if not is_sym(c): return c - 32 if 97 <= c <= 122 else c
        return simp(z3.If(z3.And(c >= 97, c <= 122), c - 32, c))
    S['tolower'] = tolower; S['toupper'] = toupper
    errno_a = galloc(8)
    S['__errno_location'] = lambda E, st, fr, I, A: errno_a
    def calloc(E, st, fr, I, A):
        if is_sym(A[0]) or is_sym(A[1]): raise Unsupported('symbolic calloc size')
        n = A[0] * A[1]; a = E.alloc(st, n, 'heap'); st.allocs[a] = (st.allocs[a][0], 'malloc')
        for i in range(n): st.mem[a + i] = 0
        return a
    S['calloc'] = calloc
    def strcpy(E, st, fr, I, A):
        cs = cchars(E, st, A[1])
        for i, b in enumerate(cs + [0]): E.store(st, A[0] + i, 1, b)
        return A[0]
    S['strcpy'] = strcpy; S['stpcpy'] = lambda E, st, fr, I, A: strcpy(E, st, fr, I, A) + len(cchars(E, st, A[1]))
    def strncpy(E, st, fr, I, A):
        if is_sym(A[2]): raise Unsupported('symbolic strncpy length')
        cs = []
        for i in range(A[2]):
            b = E.load(st, A[1] + i, 1)
            if is_sym(b):
                if E.feasible(st, b == 0):
                    if E.feasible(st, b != 0): raise NeedFork(b == 0)
                    break
            elif b == 0: break
            cs.append(b)
        for i in range(A[2]): E.store(st, A[0] + i, 1, cs[i] if i < len(cs) else 0)
        return A[0]
    S['strncpy'] = strncpy
    def strcat(E, st, fr, I, A):
        d = cchars(E, st, A[0]); cs = cchars(E, st, A[1])
        for i, b in enumerate(cs + [0]): E.store(st, A[0] + len(d) + i, 1, b)
        return A[0]
    S['strcat'] = strcat
    def strncat(E, st, fr, I, A):
        if is_sym(A[2]): raise Unsupported('symbolic strncat length')
        d = cchars(E, st, A[0]); cs = cchars(E, st, A[1])[:A[2]]
        for i, b in enumerate(cs + [0]): E.store(st, A[0] + len(d) + i, 1, b)
        return A[0]
    S['strncat'] = strncat
    def sprintf(E, st, fr, I, A):
        if not hasattr(E, 'fmt'): raise Unsupported('sprintf without the process-environment model')
        out = E.fmt(E, st, A[1], A, 2)
        for k, ch in enumerate(out + [0]): E.store(st, A[0] + k, 1, ch)
        return len(out)
    S['sprintf'] = sprintf
    def strtoull(E, st, fr, I, A):
        if is_sym(A[2]) or A[2] != 10: raise Unsupported('strtoul with a base other than 10')
        v, end = parse_decimal(E, st, A[0], 64, unsigned=True)
        if A[1] != 0: E.store(st, A[1], 8, A[0] + end)
        return v
    S['strtoul'] = strtoull; S['strtoull'] = strtoull
    def strrchr(E, st, fr, I, A):
        cs = cchars(E, st, A[0]); c = A[1] & 0xff if not is_sym(A[1]) else None
        if c is None or any(is_sym(x) for x in cs): raise Unsupported('symbolic strrchr')
        r = 0
        for i, x in enumerate(cs + [0]):
            if x == c: r = A[0] + i
        return r
    S['strrchr'] = strrchr
    def strstr(E, st, fr, I, A):
        h = cchars(E, st, A[0]); n = cchars(E, st, A[1])
        if any(is_sym(x) for x in h + n): raise Unsupported('symbolic strstr')
        i = bytes(h).find(bytes(n))
        return A[0] + i if i >= 0 else 0
    S['strstr'] = strstr
    def strspn_f(reject):
        def f(E, st, fr, I, A):
            s_ = cchars(E, st, A[0]); set_ = cchars(E, st, A[1])
            n = 0
            for x in s_:
                if not is_sym(x) and not any(is_sym(y) for y in set_): member = x in set_
                else:
                    cond = z3.Or(*[bv(x, 8) == bv(y, 8) for y in set_]) if set_ else z3.BoolVal(False)
                    if _definitely(E, st, cond): member = True
                    elif _definitely(E, st, z3.Not(cond)): member = False
                    else: raise NeedFork(cond)
                if member == reject: break
                n += 1
            return n
        return f
    S['strspn'] = strspn_f(False); S['strcspn'] = strspn_f(True)
    def readline(E, st, fr, I, A):
        """GNU readline: the next scripted input line as a malloc'ed string, NULL at end of input.  Lines come from st.aux['readline_lines'];
        by default two continuation lines that close either kind of open quote, then end of input"""
        lines = st.aux.get('readline_lines', [list(b'a"\''), list(b'"\'')]); k = st.aux.get('readline_pos', 0)
        if k >= len(lines): return 0
        st.aux['readline_pos'] = k + 1
        a = E.alloc(st, len(lines[k]) + 1, 'heap'); st.allocs[a] = (st.allocs[a][0], 'malloc')
        for i, b in enumerate(list(lines[k]) + [0]): E.store(st, a + i, 1, b)
        return a
    S['readline'] = readline
    for nm in ('add_history', 'using_history', 'read_history', 'write_history', 'rl_bind_key', 'rl_insert', 'stifle_history'): S[nm] = lambda E, st, fr, I, A: 0
    S['isatty'] = lambda E, st, fr, I, A: st.aux.get('isatty', {}).get(A[0], 0)
    S['fileno'] = lambda E, st, fr, I, A: 0
    S['getenv'] = lambda E, st, fr, I, A: 0
    S['secure_getenv'] = S['getenv']
