"""Regenerate, from /repo's *current working tree*, everything a check consumes:
  - LLVM-14 IR of the repository TUs + the extern "C" shim TUs (input of the symbolic engine)
  - a native shared object of the same shim + TUs (encoder validation and counterexample replay)
Nothing is cached between runs: every check invocation recompiles what it needs."""
import os, subprocess, hashlib, sys, shutil, concurrent.futures as cf

REPO = os.environ.get('VERIF_REPO', '/repo')
VERIF = os.path.dirname(os.path.dirname(os.path.abspath(__file__)))
GUARD = 'BTCDEB_VERIF'

IRFLAGS = ['-std=c++17', '-O1', '-fno-vectorize', '-fno-slp-vectorize', '-fno-unroll-loops',
           '-I' + REPO, '-I' + REPO + '/secp256k1/include', '-DHAVE_CONFIG_H', '-D' + GUARD, '-S', '-emit-llvm', '-w']
NATFLAGS = ['-std=c++17', '-O1', '-fPIC', '-DVERIF_NATIVE', '-I' + REPO, '-I' + REPO + '/secp256k1/include', '-DHAVE_CONFIG_H', '-D' + GUARD, '-w']

# repository translation units by short name
TUS = {
    'interp': 'script/interpreter.cpp', 'script': 'script/script.cpp', 'script_error': 'script/script_error.cpp',
    'dbginterp': 'debugger/interpreter.cpp', 'dbgscript': 'debugger/script.cpp', 'dbghash': 'debugger/hash.cpp',
    'instance': 'instance.cpp', 'value': 'value.cpp', 'functions': 'functions.cpp',
    'pubkey': 'pubkey.cpp', 'hash': 'hash.cpp', 'uint256': 'uint256.cpp', 'arith': 'arith_uint256.cpp',
    'sha256': 'crypto/sha256.cpp', 'ripemd160': 'crypto/ripemd160.cpp', 'sha1': 'crypto/sha1.cpp', 'sha512': 'crypto/sha512.cpp',
    'hmac512': 'crypto/hmac_sha512.cpp',
    'bech32': 'bech32.cpp', 'base58': 'base58.cpp', 'strenc': 'util/strencodings.cpp', 'spanparsing': 'util/spanparsing.cpp',
    'tx': 'primitives/transaction.cpp', 'kerl': 'kerl/kerl.c', 'merkle': 'consensus/merkle.cpp', 'cleanse': 'support/cleanse.cpp', 'lockedpool': 'support/lockedpool.cpp',
}
ALL_NATIVE = ['interp', 'script', 'script_error', 'dbginterp', 'dbgscript', 'dbghash', 'value', 'pubkey', 'hash', 'uint256', 'arith',
              'sha256', 'ripemd160', 'sha1', 'sha512', 'hmac512', 'bech32', 'base58', 'strenc', 'spanparsing', 'tx', 'merkle', 'cleanse', 'lockedpool']

class BuildError(Exception): pass

def sha_file(p):
    h = hashlib.sha256()
    with open(p, 'rb') as f: h.update(f.read())
    return h.hexdigest()

def _run(cmd):
    r = subprocess.run(cmd, stdout=subprocess.PIPE, stderr=subprocess.STDOUT, text=True)
    return r.returncode, r.stdout

def workdir(tag):
    d = os.path.join(VERIF, '.work', tag)
    shutil.rmtree(d, ignore_errors=True)
    os.makedirs(d, exist_ok=True)
    return d

def build_ir(wd, tus, shims):
    """returns (list of .ll paths [shims first], {source path: sha256})"""
    jobs = []
    for s in shims:
        src = os.path.join(VERIF, 'shims', s + '.cpp'); jobs.append((src, os.path.join(wd, 'shim_' + s + '.ll')))
    for t in tus:
        src = os.path.join(REPO, TUS[t]); jobs.append((src, os.path.join(wd, t + '.ll')))
    def one(j):
        src, out = j
        if src.endswith('.c'): rc, o = _run(['clang-14', '-std=gnu99', '-O1', '-fno-vectorize', '-fno-slp-vectorize', '-fno-unroll-loops', '-S', '-emit-llvm', '-w', '-DHAVE_CONFIG_H', '-I' + REPO, '-I' + REPO + '/config', '-I' + REPO + '/kerl', src, '-o', out])          # as the Makefile compiles kerl.c (readline support on)
        else: rc, o = _run(['clang++-14'] + IRFLAGS + ['-I' + os.path.join(VERIF, 'shims'), src, '-o', out])
        return rc, o, src
    with cf.ThreadPoolExecutor(16) as ex:
        for rc, o, src in ex.map(one, jobs):
            if rc != 0: raise BuildError('clang++ failed on %s:\n%s' % (src, o[-3000:]))
    return [j[1] for j in jobs], {j[0]: sha_file(j[0]) for j in jobs}

def build_native(wd, shims, tus=None, extra_src=()):
    """g++ shared object with the shim(s) and the repository TUs compiled from the working tree; returns path"""
    tus = ALL_NATIVE if tus is None else tus
    jobs = []
    for s in shims: jobs.append((os.path.join(VERIF, 'shims', s + '.cpp'), os.path.join(wd, 'n_shim_' + s + '.o')))
    for t in tus: jobs.append((os.path.join(REPO, TUS[t]), os.path.join(wd, 'n_' + t + '.o')))
    for e in extra_src: jobs.append((e, os.path.join(wd, 'n_x_' + os.path.basename(e) + '.o')))
    def one(j):
        src, out = j
        if src.endswith('.c'): rc, o = _run(['gcc', '-std=gnu99', '-O1', '-fPIC', '-w', '-DHAVE_CONFIG_H', '-I' + REPO, '-I' + REPO + '/config', '-I' + REPO + '/kerl', '-c', src, '-o', out])
        else: rc, o = _run(['g++'] + NATFLAGS + ['-I' + os.path.join(VERIF, 'shims'), '-c', src, '-o', out])
        return rc, o, src
    with cf.ThreadPoolExecutor(16) as ex:
        for rc, o, src in ex.map(one, jobs):
            if rc != 0: raise BuildError('g++ failed on %s:\n%s' % (src, o[-3000:]))
    so = os.path.join(wd, 'native.so')
    secp = secp_lib(wd)
    rc, o = _run(['g++', '-shared', '-o', so] + [j[1] for j in jobs] + [secp, '-lreadline'])
    if rc != 0: raise BuildError('link failed:\n' + o[-3000:])
    return so

def secp_lib(wd):
    """bundled libsecp256k1 built -fPIC from the working tree's sources (single TU + precomputed tables)"""
    out = os.path.join(wd, 'secp_pic.a')
    srcs = ['src/secp256k1.c', 'src/precomputed_ecmult.c', 'src/precomputed_ecmult_gen.c']
    objs = []
    def one(s):
        o = os.path.join(wd, 'secp_' + os.path.basename(s) + '.o')
        rc, t = _run(['gcc', '-O2', '-fPIC', '-DHAVE_CONFIG_H', '-I' + REPO + '/secp256k1', '-I' + REPO + '/secp256k1/src', '-I' + REPO + '/secp256k1/include',
                      '-w', '-c', os.path.join(REPO, 'secp256k1', s), '-o', o])
        if rc != 0: raise BuildError('secp256k1 build failed:\n' + t[-2000:])
        return o
    with cf.ThreadPoolExecutor(3) as ex: objs = list(ex.map(one, srcs))
    rc, t = _run(['ar', 'rcs', out] + objs)
    if rc != 0: raise BuildError(t)
    return out

def build_tools(wd, which=('btcdeb', 'btcc', 'tap')):
    """the real command-line tools, linked from the working tree's sources (for CLI-level replay)"""
    raise NotImplementedError
