"""Check driver: regenerate IR/native code from /repo, run a harness module's obligations on all cores, replay
counterexamples against the native build, match known findings, write evidence, print the verdict.

Harness module interface (harness/<ID>.py):
  ID, TITLE                  property id / short description
  TUS, SHIMS                 repository TUs (build.TUS keys) and shim names (shims/<name>.cpp) lowered to IR
  NATIVE_TUS (optional)      TUs linked into the native replay/validation library (default: build.ALL_NATIVE)
  setup(E)                   install stubs
  obligations(tier, seed)    -> list of dicts (picklable), each with a unique 'name'
  run(E, ob)                 -> result dict: status in {holds, violated, inconclusive}, paths, queries, ... (see mkres)
  validate(E, lib)           -> number of concrete traces on which engine and native build agreed (raises on mismatch)
  replay(lib, ob, cex)       -> (reproduced: bool, text)   native re-execution of a solver counterexample
  ASSUMPTIONS                list of strings
  FUNCTIONS                  list of strings: the entry points / code encoded
"""
import os, sys, time, json, importlib, signal, traceback, multiprocessing as mp, resource, random, ctypes, hashlib
HERE = os.path.dirname(os.path.abspath(__file__))
VERIF = os.path.dirname(HERE)
sys.path.insert(0, HERE); sys.path.insert(0, os.path.join(VERIF, 'harness'))
import build

class EncoderMismatch(Exception): pass
class NativeViolation(Exception):
    """raised by a harness' validate() when the REAL build, run on a concrete input, breaks the property against the independent reference
    (this is a property violation observed natively, not a disagreement between engine and native build)"""
    def __init__(s, key, note, cex=None):
        Exception.__init__(s, note); s.key = key; s.note = note; s.cex = cex
class ObTimeout(Exception): pass

def mkres(name, status='holds', **kw):
    r = dict(name=name, status=status, paths=0, ref_cases=0, queries=0, sat=0, unsat=0, unknown=0, solver_s=0.0, steps=0, wall=0.0,
             classes={}, cex=None, key=None, note='')
    r.update(kw); return r

# ------------------------------------------------------------------------------------------------ worker side
_W = {}
def _winit(modname, ll_files, so_path, tier, seed):
    import irsym
    sys.setrecursionlimit(100000)
    H = importlib.import_module(modname)
    t0 = time.time()
    E = irsym.Engine(ll_files)
    H.setup(E)
    E.run_static_inits()
    E.query_timeout_ms = 20000 if tier == 'quick' else 120000
    _W.update(H=H, E=E, tier=tier, seed=seed, so=so_path, init_s=time.time() - t0)

def _validate_child(part, ll, so, tier, seed, q):
    try:
        P = importlib.import_module(part)
        _winit(part, ll, so, tier, seed)
        lib = ctypes.CDLL(so) if so else None
        n = P.validate(_W['E'], lib) if hasattr(P, 'validate') else 0
        q.put(('ok', n))
    except EncoderMismatch as e: q.put(('mismatch', str(e)))
    except NativeViolation as e: q.put(('native', e.key, e.note, e.cex))
    except Exception as e: q.put(('crash', 'validation crashed: %s\n%s' % (e, traceback.format_exc()[-1500:])))

def _alarm(signum, frame):
    signal.alarm(3)          # re-arm: an exception raised while a __del__ (z3 reference counting) is running is swallowed by the interpreter
    raise ObTimeout()

def _wrun(ob):
    import irsym
    H = _W['H']; E = _W['E']
    E.queries = 0; E.solver_time = 0.0; E.total_steps = 0; E.unknowns = 0
    t0 = time.time()
    limit = ob.get('timeout_s', 600 if _W['tier'] == 'quick' else 1800)
    signal.signal(signal.SIGALRM, _alarm); signal.alarm(limit)
    try:
        r = H.run(E, ob)
    except ObTimeout:
        signal.alarm(0)
        r = mkres(ob['name'], 'inconclusive', note='obligation wall-clock limit %ds reached' % limit)
    except irsym.Unsupported as e:
        r = mkres(ob['name'], 'inconclusive', note='engine: %s' % e)
    except Exception as e:
        r = mkres(ob['name'], 'inconclusive', note='harness exception: %s\n%s' % (e, traceback.format_exc()[-1500:]))
    finally:
        signal.alarm(0)
    r['wall'] = time.time() - t0
    r['queries'] = r.get('queries', 0) + E.queries; r['solver_s'] = r.get('solver_s', 0.0) + E.solver_time; r['steps'] = r.get('steps', 0) + E.total_steps
    r['called'] = sorted(E.called); r['stubs'] = dict(E.stub_hits)
    r['rss_mb'] = resource.getrusage(resource.RUSAGE_SELF).ru_maxrss // 1024
    E.called = set(); E.stub_hits = {}
    return r

# ------------------------------------------------------------------------------------------------ replay in a child process
def _replay_child(modname, so, ob, cex, q):
    try:
        H = importlib.import_module(modname)
        lib = ctypes.CDLL(so)
        q.put(H.replay(lib, ob, cex))
    except Exception as e:
        q.put((None, 'replay harness error: %s\n%s' % (e, traceback.format_exc()[-1000:])))

def native_replay(modname, so, ob, cex, timeout=120):
    q = mp.Queue()
    p = mp.Process(target=_replay_child, args=(modname, so, ob, cex, q))
    p.start(); p.join(timeout)
    if p.is_alive(): p.kill(); return True, 'native run did not terminate within %ds' % timeout
    if p.exitcode != 0:
        sig = -p.exitcode if p.exitcode < 0 else None
        return True, 'native run terminated abnormally (%s)' % ('signal %d' % sig if sig else 'exit %d' % p.exitcode)
    try: return q.get(timeout=5)
    except Exception: return None, 'no replay result'

# ------------------------------------------------------------------------------------------------ known findings
def load_known(pid):
    out = []
    p = os.path.join(VERIF, 'known-findings.txt')
    if not os.path.exists(p): return out
    for ln in open(p):
        ln = ln.strip()
        if not ln.startswith('finding:'): continue
        f = dict(x.split('=', 1) for x in ln[8:].split('::')[0].split() if '=' in x)
        if f.get('property') != pid: continue
        f['text'] = ln.split('::', 1)[1].strip() if '::' in ln else ''
        out.append(f)
    return out

def match_known(known, key):
    for f in known:
        k = f.get('key', '')
        if k == key or (k.endswith('*') and key is not None and key.startswith(k[:-1])): return f
    return None

# ------------------------------------------------------------------------------------------------ main
def main(argv=None):
    argv = argv or sys.argv[1:]
    pid = argv[0]; tier = argv[1] if len(argv) > 1 else os.environ.get('VERIF_TIER', 'quick')
    only = None
    if '--only' in argv: only = argv[argv.index('--only') + 1]
    replay_path = None
    if '--replay' in argv: replay_path = argv[argv.index('--replay') + 1]
    seed = int(os.environ.get('VERIF_SEED', '0') or 0)
    jobs = int(os.environ.get('VERIF_JOBS', '16'))
    t_start = time.time()
    H = importlib.import_module(pid)
    ev_path = os.path.join(VERIF, 'evidence', pid + '.json')
    os.makedirs(os.path.dirname(ev_path), exist_ok=True)
    # a property's check may consist of several harness modules with different translation units (PARTS); each part is built, explored and
    # validated on its own, the verdict and the evidence are joint
    parts = [pid] + list(getattr(H, 'PARTS', []))
    if replay_path:
        rec = json.load(open(replay_path)); parts = [rec.get('part') or pid]
    results = []; nval = 0; src_sha = {}; t_build = 0.0; part_of = {}; so_of = {}; obs_of = {}
    for part in parts:
        P = importlib.import_module(part)
        tb0 = time.time()
        wd = build.workdir(part + '_' + tier + ('_r' if replay_path else ''))
        try:
            ll, sha = build.build_ir(wd, P.TUS, P.SHIMS)
            so = build.build_native(wd, P.SHIMS, getattr(P, 'NATIVE_TUS', None)) if getattr(P, 'NATIVE', True) else None
        except build.BuildError as e:
            print('BUILD-ERROR property=%s part=%s\n%s' % (pid, part, e)); return 2
        src_sha.update(sha); t_build += time.time() - tb0; so_of[part] = so

        if replay_path:
            rob = rec['obligation']
            if rob is not None:          # take the obligation as the harness defines it (JSON turned its tuples into lists)
                for tr in ('quick', 'thorough'):
                    hit = [o for o in P.obligations(tr, seed) if o['name'] == rob.get('name')]
                    if hit: rob = hit[0]; break
            ok, text = native_replay(part, so, rob, rec['cex'])
            print('replay %s: reproduced=%s\n%s' % (replay_path, ok, text)); return 1 if ok else 0

        obs = P.obligations(tier, seed)
        _seen = set(); obs = [o for o in obs if not (o['name'] in _seen or _seen.add(o['name']))]          # an obligation generated twice (same name = same parameters) runs once
        if only: obs = [o for o in obs if only in o['name']]
        random.Random(seed).shuffle(obs)
        obs.sort(key=lambda o: -o.get('cost', 1))          # expensive first
        for o in obs: obs_of[(part, o['name'])] = o
        presults = []
        ctx = mp.get_context('fork')
        with ctx.Pool(min(jobs, max(1, len(obs))), initializer=_winit, initargs=(part, ll, so, tier, seed), maxtasksperchild=None) as pool:
            # encoder validation runs in the parent meanwhile (own engine instance)
            it = pool.imap_unordered(_wrun, obs, chunksize=1)
            val_err = None; native_viol = None
            # the validation runs call the NATIVE build: they run in a child process, so that a crash of the code under test cannot take the check down with it
            vq = ctx.Queue(); vp_ = ctx.Process(target=_validate_child, args=(part, ll, so, tier, seed, vq)); vp_.start()
            for r in it:
                presults.append(r)
                if os.environ.get('VERIF_VERBOSE'):
                    print('  [%s] %s paths=%d q=%d %.1fs %s' % (r['status'], r['name'], r['paths'], r['queries'], r['wall'], (r['note'] or '')[:300]), flush=True)
        msg = None; t_wait = time.time()
        while time.time() - t_wait < 3600:
            try: msg = vq.get(timeout=1); break
            except Exception:
                if not vp_.is_alive():
                    try: msg = vq.get(timeout=1)
                    except Exception: msg = None
                    break
        vp_.join(30)
        if vp_.is_alive(): vp_.kill()
        if msg is None:
            sig = -vp_.exitcode if (vp_.exitcode is not None and vp_.exitcode < 0) else None
            native_viol = NativeViolation('%s:native-crash' % pid, 'the native build of the code under test terminated abnormally (%s) during the concrete validation runs' % ('signal %d' % sig if sig else 'exit %s' % vp_.exitcode), None)
        elif msg[0] == 'ok': nval += msg[1]
        elif msg[0] == 'mismatch': val_err = msg[1]
        elif msg[0] == 'native': native_viol = NativeViolation(msg[1], msg[2], msg[3])
        else: val_err = msg[1]
        if native_viol is not None:
            r = mkres('native/' + native_viol.key, 'violated', note=native_viol.note); r['key'] = native_viol.key; r['cex'] = native_viol.cex; r['native'] = True
            presults.append(r)
        for r in presults: r['part'] = part
        results += presults
        if val_err:
            print('ENCODER-MISMATCH property=%s part=%s: %s' % (pid, part, val_err))
            write_evidence(ev_path, pid, tier, seed, H, results, nval, src_sha, t_start, t_build, [], [], note='encoder validation failed: ' + val_err)
            return 2
    def ob_of(r): return obs_of.get((r['part'], r['name']))
    # ---- verdicts
    known = load_known(pid)
    viol = [r for r in results if r['status'] == 'violated']
    inconc = [r for r in results if r['status'] == 'inconclusive']
    rdir = os.path.join(VERIF, 'replay', pid); os.makedirs(rdir, exist_ok=True)
    reported = []; known_hits = {}; unrepro = []
    seen_keys = set()
    for r in sorted(viol, key=lambda r: r['name']):
        key = r.get('key') or r['name']
        if key in seen_keys: continue
        if r.get('native'): ok, text = True, 'observed on the real build during the concrete validation runs: ' + (r['note'] or '')
        else: ok, text = native_replay(r['part'], so_of[r['part']], ob_of(r), r['cex']) if (so_of.get(r['part']) and r.get('cex') is not None and hasattr(importlib.import_module(r['part']), 'replay')) else (None, 'no native replay available for this obligation')
        r['replay'] = dict(reproduced=ok, text=text)
        if ok is False:
            unrepro.append(r); continue
        seen_keys.add(key)
        kf = match_known(known, key)
        if kf is not None:
            known_hits.setdefault(kf['key'], (kf, r)); continue
        path = os.path.join(rdir, hashlib.sha1(key.encode()).hexdigest()[:12] + '.json')
        json.dump(dict(property=pid, part=r['part'], key=key, obligation=ob_of(r), cex=r['cex'], note=r['note'], replay=r['replay']), open(path, 'w'), indent=1, default=str)
        reported.append((r, path))
    write_evidence(ev_path, pid, tier, seed, H, results, nval, src_sha, t_start, t_build, reported, list(known_hits.values()), unrepro=unrepro)
    tot_paths = sum(r['paths'] for r in results); tot_q = sum(r['queries'] for r in results)
    print('%s %s: %d obligations, %d paths, %d solver queries, %d holds, %d violated, %d inconclusive, %d traces validated, %.0fs' %
          (pid, tier, len(results), tot_paths, tot_q, len([r for r in results if r['status'] == 'holds']), len(viol), len(inconc), nval, time.time() - t_start))
    for kf, r in known_hits.values():
        print('KNOWN-FINDING: property=%s %s [key=%s; observed in %s: %s]' % (pid, kf['text'], kf['key'], r['name'], (r['note'] or '')[:200]))
    rc = 0
    for r, path in reported:
        print('VIOLATION property=%s replay=%s' % (pid, path))
        print('   obligation %s: %s' % (r['name'], (r['note'] or '')[:600]))
        print('   native replay: %s' % (r['replay']['text'] or '')[:600])
        rc = 1
    if rc == 0 and unrepro:
        for r in unrepro[:5]:
            print('ENCODER-SUSPECT property=%s obligation=%s: solver counterexample did not reproduce natively: %s | %s' % (pid, r['name'], (r['note'] or '')[:300], r['replay']['text'][:300]))
        rc = 2
    if rc == 0 and inconc:
        for r in inconc[:10]:
            print('INCONCLUSIVE property=%s obligation=%s: %s' % (pid, r['name'], (r['note'] or '')[:400]))
        rc = 3
    return rc

def write_evidence(path, pid, tier, seed, H, results, nval, src_sha, t_start, t_build, reported, known_hits, unrepro=(), note=''):
    called = set(); stubs = {}
    for r in results:
        called.update(r.get('called', ()))
        for k, v in r.get('stubs', {}).items(): stubs[k] = stubs.get(k, 0) + v
    samples = []
    rs = sorted(results, key=lambda r: r['name'])
    step = max(1, len(rs) // 12)
    for r in rs[::step][:12]:
        samples.append(dict(obligation=r['name'], verdict=r['status'], paths=r['paths'], reference_cases=r['ref_cases'], queries=r['queries'],
                            unsat=r['unsat'], sat=r['sat'], solver_s=round(r['solver_s'], 3), wall_s=round(r['wall'], 2), outcome_classes=r['classes']))
    ev = dict(property_id=pid, tier=tier, seed=seed, level='model_checking',
              coverage=dict(
                  states=sum(r['paths'] for r in results), transitions=sum(r['steps'] for r in results),
                  traces_validated_against_impl=nval, samples=samples,
                  obligations=len(results), holds=len([r for r in results if r['status'] == 'holds']),
                  violated=len([r for r in results if r['status'] == 'violated']), inconclusive=len([r for r in results if r['status'] == 'inconclusive']),
                  solver_queries=sum(r['queries'] for r in results), unsat=sum(r['unsat'] for r in results), sat=sum(r['sat'] for r in results),
                  unknown=sum(r['unknown'] for r in results), solver_time_s=round(sum(r['solver_s'] for r in results), 2),
                  reference_cases=sum(r['ref_cases'] for r in results), max_rss_mb=max([r.get('rss_mb', 0) for r in results] or [0]),
                  build_s=round(t_build, 1),
                  functions_encoded=getattr(H, 'FUNCTIONS', []), ir_functions_entered=sorted(called)[:400], n_ir_functions_entered=len(called),
                  stubs_hit=stubs, sources={os.path.relpath(k, '/'): v[:16] for k, v in src_sha.items()},
                  bounds=getattr(H, 'BOUNDS', {}).get(tier, getattr(H, 'BOUNDS', '')) if isinstance(getattr(H, 'BOUNDS', ''), dict) else getattr(H, 'BOUNDS', ''),
                  outside=getattr(H, 'OUTSIDE', []),
                  obligation_list=[dict(name=r['name'], status=r['status'], paths=r['paths'], queries=r['queries'], wall_s=round(r['wall'], 2), note=(r['note'] or '')[:200] + ((' ... ' + (r['note'] or '')[-500:]) if len(r['note'] or '') > 700 else '')) for r in rs][:3000],
                  known_findings_observed=[dict(key=kf['key'], text=kf['text'], obligation=r['name']) for kf, r in known_hits],
                  violations_reported=[dict(obligation=r['name'], key=r.get('key'), replay=p) for r, p in reported],
                  unreproduced_counterexamples=[r['name'] for r in unrepro],
                  explanation=('bounded symbolic execution (irsym: path-based executor over clang-14 -O1 LLVM IR of the working tree, z3 decides every branch '
                               'feasibility and every post-condition) within the listed shapes; ' + getattr(H, 'TITLE', '') + ('; ' + note if note else ''))),
              assumptions=getattr(H, 'ASSUMPTIONS', []), wall_s=round(time.time() - t_start, 1), violations=len(reported))
    json.dump(ev, open(path, 'w'), indent=1, default=str)

if __name__ == '__main__':
    sys.modules.setdefault('core', sys.modules['__main__'])          # the harness modules import this file as `core`: one set of exception classes
    sys.exit(main())
