#!/usr/bin/env python3-vt
"""irsym: a small path-based symbolic executor for clang -O1 LLVM-14 IR (typed pointers).
Concrete addresses, byte-granular memory whose cells are ints or z3 8-bit terms; forks on
symbolic branch conditions (feasibility by z3); C++ exceptions are unwound for real through
invoke/landingpad; externals are Python stubs.  Parsing is shared with ir2c.py."""
import sys, re, copy, time, bisect, os
import z3
sys.path.insert(0, os.path.dirname(os.path.abspath(__file__)))
import ir2c
from ir2c import (IntT, PtrT, ArrT, StructT, VoidT, FloatT, NamedT, FuncT, res, sizeof, alignof, field_off,
                  Reg, Glob, CInt, CNull, CUndef, CZero, CStr, CAgg, CExpr, CFloat)

class Unsupported(Exception): pass
class PathAbort(Exception):  # assume(false)-like: path silently dropped
    pass
class NeedFork(Exception):
    """raised by a stub whose behaviour depends on a symbolic condition: the engine forks on it and re-executes the call on both sides"""
    def __init__(s, cond): s.cond = cond
class ProgramExit(Exception):
    def __init__(s, code): s.code = code
class Violation(Exception):
    def __init__(s, kind, msg): s.kind = kind; s.msg = msg; Exception.__init__(s, kind + ': ' + msg)

def is_sym(v): return isinstance(v, z3.ExprRef)
def mask(v, bits): return v & ((1 << bits) - 1)
def sext(v, bits): return v - (1 << bits) if v >> (bits - 1) else v
def bv(v, bits): return v if is_sym(v) else z3.BitVecVal(v, bits)
def simp(e):
    e = z3.simplify(e)
    if z3.is_bv_value(e): return e.as_long()
    return e

class Frame:
    __slots__ = ('fn', 'bi', 'ii', 'regs', 'prev', 'allocas', 'ret_to', 'vastart')
    def clone(s):
        f = Frame(); f.fn = s.fn; f.bi = s.bi; f.ii = s.ii; f.regs = dict(s.regs); f.prev = s.prev; f.allocas = list(s.allocas); f.ret_to = s.ret_to
        return f

class State:
    def __init__(s):
        s.mem = {}; s.allocs = {}; s.frames = []; s.pc = []; s.brk = 0x10000000; s.exc = None; s.steps = 0; s.result = None; s.flags = {}
        s.freed = set(); s.bases = []; s.out = []; s.aux = {}; s.model = None
    def clone(s):
        t = State(); t.mem = dict(s.mem); t.allocs = dict(s.allocs); t.frames = [f.clone() for f in s.frames]; t.pc = list(s.pc)
        t.brk = s.brk; t.exc = s.exc; t.steps = s.steps; t.flags = dict(s.flags); t.freed = set(s.freed); t.bases = list(s.bases); t.out = list(s.out)
        t.aux = copy.copy(s.aux); t.model = s.model
        return t

class StubMap(dict):
    """stubs keyed by (mangled) function name; lookup ignores the .tuN suffix given to TU-internal symbols and
    falls back to registered name prefixes (template families such as tinyformat::format<...>)"""
    def __init__(s, *a):
        dict.__init__(s, *a); s.prefixes = []
    def get(s, k, d=None):
        if isinstance(k, str):
            k2 = re.sub(r'\.tu\d+$', '', k)
            r = dict.get(s, k2)
            if r is not None: return r
            for p, h in s.prefixes:
                if k2.startswith(p): return h
            return d
        return dict.get(s, k, d)
    def prefix(s, p, h): s.prefixes.append((p, h))

class Engine:
    def __init__(s, files, max_steps=2000000):
        s.mod = ir2c.Module()
        for n, fn in enumerate(files):
            txt = open(fn).read()
            names = set(re.findall(r'^(@"(?:[^"\\]|\\.)*"|@[-a-zA-Z$._0-9]+) = (?:private|internal) ', txt, re.M))
            names |= set(re.findall(r'^define (?:private|internal) [^@]*(@"(?:[^"\\]|\\.)*"|@[-a-zA-Z$._0-9]+)\(', txt, re.M))
            pl = sorted(x for x in names if x[1] != '"')
            if pl:
                rx = re.compile(r'(?<![-a-zA-Z$._0-9"])(' + '|'.join(re.escape(x) for x in pl) + r')(?![-a-zA-Z$._0-9"])')
                txt = rx.sub(lambda m: m.group(1) + '.tu%d' % n, txt)
            # named struct types are per-module in LLVM IR: different translation units use the same name (%"class.std::optional", %"struct.std::pair", ...)
            # for different instantiations, so every type name gets a per-file suffix before the modules are merged
            tnames = set(re.findall(r'^(%"(?:[^"\\]|\\.)*"|%[-a-zA-Z$._0-9]+) = type ', txt, re.M))
            if tnames:
                def _rn(m, tn=tnames, sfx='.tu%d' % n):
                    t = m.group(0)
                    if t not in tn: return t
                    return (t[:-1] + sfx + '"') if t.endswith('"') else t + sfx
                txt = re.sub(r'%"(?:[^"\\]|\\.)*"|%[-a-zA-Z$._0-9]+', _rn, txt)
            ir2c.parse_module(txt, s.mod)
        s.E = ir2c.Emit(s.mod, set())
        s.parsed = {}; s.faddr = {}; s.addrf = {}; s.gaddr = {}
        s.stubs = StubMap(); s.max_steps = max_steps; s.files = list(files); s.called = set(); s.stub_hits = {}; s.total_steps = 0; s.base_state = None
        s.query_timeout_ms = 20000; s.unknowns = 0; s.fast_logic = bool(int(os.environ.get('VERIF_QFUFBV', '0')))
        s.solver_time = 0.0; s.queries = 0; s.nfork = 0
        s.typeids = {}
        na = 0x1000
        for name in s.mod.funcs:
            s.faddr[name] = na; s.addrf[na] = name; na += 16
        s.gmem = {}; s.gallocs = {}; s.gbrk = 0x40000000; s.gbases = []

    # ---------------------------------------------------------------- start-up
    def run_static_inits(s):
        """execute every _GLOBAL__sub_I_* concretely, in module order; the resulting memory is the base of every harness state"""
        st = State()
        names = [n for n in s.mod.funcs if n.startswith('@_GLOBAL__sub_I_')]
        for name in names:
            if not s.mod.funcs[name].defined: continue
            s.call(st, name, [])
            fin = s.run(st)
            if len(fin) != 1 or fin[0].result is None or fin[0].result[0] != 'ret':
                raise Unsupported('static initialiser %s did not run to completion: %r' % (name, [f.result for f in fin]))
            st = fin[0]; st.result = None
        st.steps = 0; st.pc = []
        s.base_state = st
        return len(names)
    def new_state(s):
        if s.base_state is None: return State()
        t = s.base_state.clone(); t.steps = 0; t.steps0 = 0
        return t

    # ---------------------------------------------------------------- functions
    def func(s, name):
        if name in s.parsed: return s.parsed[name]
        f = s.mod.funcs[name]
        fe = ir2c.FnEmit(s.E, f)
        blocks = []; cur = None
        for ln in f.body:
            if not ln.strip(): continue
            m = re.match(r'^("(?:[^"\\]|\\.)*"|[-a-zA-Z$._0-9]+):', ln)
            if m:
                cur = [ir2c.unq('%' + m.group(1)) if m.group(1)[0] == '"' else '%' + m.group(1), []]; blocks.append(cur); continue
            if cur is None: cur = [None, []]; blocks.append(cur)
            cur[1].append(ln)
        pn = []; cnt = 0
        for (t, n, info) in f.params:
            if n is None: n = '%%%d' % cnt
            if re.fullmatch(r'%\d+', n): cnt = int(n[1:]) + 1
            pn.append(n)
        if blocks[0][0] is None: blocks[0][0] = '%%%d' % cnt
        out = []
        for (bn, lines) in blocks:
            ins = []; j = 0
            while j < len(lines):
                ln = lines[j]; j += 1
                if re.match(r'^\s+switch ', ln) and not ln.rstrip().endswith(']'):
                    while True:
                        ln += ' ' + lines[j].strip(); j += 1
                        if lines[j - 1].strip() == ']' or lines[j - 1].strip().startswith('],'): break
                while j < len(lines) and re.match(r'^\s+(to label|catch |cleanup|filter )', lines[j]):
                    ln += ' ' + lines[j].strip(); j += 1
                m = ir2c.INSTR_ASSIGN.match(ln)
                if m: dst = ir2c.unq(m.group(1)); rest = m.group(2)
                else: dst = None; rest = ln.strip()
                ins.append(fe.parse_instr(dst, ir2c.P(ir2c.lex(rest), s.mod), rest))
            out.append((bn, ins))
        idx = {bn: i for i, (bn, _) in enumerate(out)}
        pf = dict(name=name, blocks=out, idx=idx, params=pn, f=f)
        s.parsed[name] = pf
        return pf

    # ---------------------------------------------------------------- memory
    def alloc(s, st, size, kind='heap', align=16):
        a = (st.brk + align - 1) // align * align
        st.brk = a + max(size, 1) + 32  # red zone
        st.allocs[a] = (size, kind); st.bases.append(a)
        return a
    def find_alloc(s, st, addr):
        if addr >= 0x40000000:
            i = bisect.bisect_right(s.gbases, addr) - 1
            if i < 0: return None
            b = s.gbases[i]
            return b if addr <= b + s.gallocs[b][0] else None
        i = bisect.bisect_right(st.bases, addr) - 1
        if i < 0: return None
        b = st.bases[i]
        info = st.allocs.get(b)
        if info is None or addr > b + info[0]: return None
        return b
    def alloc_info(s, st, base):
        return s.gallocs[base] if base >= 0x40000000 else st.allocs[base]
    def check(s, st, addr, n, what):
        b = s.find_alloc(st, addr)
        if b is None or addr + n > b + s.alloc_info(st, b)[0]:
            raise Violation('memory', '%s of %d bytes at %#x outside any live object' % (what, n, addr))
        if b in st.freed: raise Violation('memory', '%s at %#x in freed object' % (what, addr))
    def load(s, st, addr, nbytes):
        s.check(st, addr, nbytes, 'read')
        bs = []
        symb = False
        for i in range(nbytes):
            b = st.mem.get(addr + i)
            if b is None: b = s.gmem.get(addr + i)
            if b is None:
                b = z3.BitVec('uninit_%x' % (addr + i), 8); st.mem[addr + i] = b; st.flags['uninit_read'] = addr + i
            if is_sym(b): symb = True
            bs.append(b)
        if not symb:
            return int.from_bytes(bytes(bs), 'little')
        if nbytes == 1: return bs[0]
        return simp(z3.Concat(*[bv(b, 8) for b in reversed(bs)]))
    def store(s, st, addr, nbytes, v):
        s.check(st, addr, nbytes, 'write')
        if not is_sym(v):
            for i in range(nbytes): st.mem[addr + i] = (v >> (8 * i)) & 0xff
        else:
            if nbytes == 1 and v.size() == 8: st.mem[addr] = v; return
            if v.size() < 8 * nbytes: v = z3.ZeroExt(8 * nbytes - v.size(), v)
            for i in range(nbytes): st.mem[addr + i] = simp(z3.Extract(8 * i + 7, 8 * i, v))

    def fresh(s):
        s._fresh = getattr(s, '_fresh', 0) + 1; return s._fresh
    def cstring(s, st, b):
        a = s.alloc(st, len(b) + 1, 'heap')
        for i, c in enumerate(b): st.mem[a + i] = c
        st.mem[a + len(b)] = 0
        return a
    # ---------------------------------------------------------------- globals
    def gaddr_of(s, st, name):
        name0 = name
        g = s.mod.globals.get(name)
        if name in s.mod.funcs and (g is None or g.get('alias') is None): return s.faddr[name]
        if g is None: raise Unsupported('global ' + name)
        if g.get('alias') is not None:
            v = g['alias']
            return s.const(st, PtrT(IntT(8)), v)
        if name in s.gaddr: return s.gaddr[name]
        t = g['type']
        size = sizeof(t) if g['init'] is not None or not isinstance(res(t), ir2c.OpaqueT) else 64
        a = (s.gbrk + 15) // 16 * 16; s.gbrk = a + max(size, 8) + 32
        s.gallocs[a] = (max(size, 8), 'global'); s.gbases.append(a)
        s.gaddr[name] = a
        if g['init'] is not None:
            data = bytearray(max(size, 1)); fix = []
            s.E.flatten(t, g['init'], 0, data, fix)
            for i, b in enumerate(data): s.gmem[a + i] = b
            for off, ft, fv in fix:
                v = s.const(st, ft, fv)
                for i in range(sizeof(ft)): s.gmem[a + off + i] = (v >> (8 * i)) & 0xff
        else:
            for i in range(max(size, 8)): s.gmem[a + i] = 0
            h = s.stubs.get(('global', name))
            if h: h(s, st, a)
        return a

    def const(s, st, t, v):
        t = res(t)
        if isinstance(v, CInt):
            return mask(v.v, t.bits) if isinstance(t, IntT) else v.v
        if isinstance(v, (CNull, CZero)):
            if isinstance(t, (StructT, ArrT)): return s.zero_agg(t)
            return 0
        if isinstance(v, CUndef):
            if isinstance(t, (StructT, ArrT)): return s.zero_agg(t)
            return 0
        if isinstance(v, Glob): return s.gaddr_of(st, v.name)
        if isinstance(v, CExpr):
            op = v.op
            if op == 'getelementptr':
                bt, bvv = v.args[0]
                base = s.const(st, bt, bvv)
                return s.gep(st, None, v.extra, base, v.args[1:])
            if op in ('bitcast', 'addrspacecast', 'ptrtoint', 'inttoptr'):
                return s.const(st, v.args[0][0], v.args[0][1])
            if op in ('add', 'sub'):
                a = s.const(st, v.args[0][0], v.args[0][1]); b = s.const(st, v.args[1][0], v.args[1][1])
                return mask(a + b if op == 'add' else a - b, 64)
            raise Unsupported('cexpr ' + op)
        if isinstance(v, CAgg):
            return [s.const(st, et, ev) for et, ev in v.elems]
        raise Unsupported('const %r' % v)

    def zero_agg(s, t):
        t = res(t)
        if isinstance(t, StructT): return [s.zero_agg(f) if isinstance(res(f), (StructT, ArrT)) else 0 for f in t.fields]
        if isinstance(t, ArrT): return [s.zero_agg(t.el) if isinstance(res(t.el), (StructT, ArrT)) else 0 for _ in range(t.n)]
        return 0

    def val(s, st, fr, t, v):
        if isinstance(v, Reg): return fr.regs[v.name]
        return s.const(st, t, v)

    def gep(s, st, fr, sty, base, idxs):
        cur = sty; off = 0
        for n, (it, iv) in enumerate(idxs):
            x = s.val(st, fr, it, iv) if fr is not None else s.const(st, it, iv)
            bits = res(it).bits
            if is_sym(x): x = z3.SignExt(64 - bits, x) if bits < 64 else x
            else: x = sext(x, bits)
            if n == 0:
                off = off + x * sizeof(cur); continue
            c = res(cur)
            if isinstance(c, StructT):
                off = off + field_off(c, x); cur = c.fields[x]
            else:
                off = off + x * sizeof(c.el); cur = c.el
        r = base + off
        return simp(r) if is_sym(r) else mask(r, 64)

    # ---------------------------------------------------------------- solver
    def feasible(s, st, extra):
        t0 = time.time()
        for attempt in (1, 6):          # an unknown answer is retried once with a six-fold time limit (a loaded machine must not turn a verdict into 'inconclusive')
            sol = z3.Solver(); sol.set('timeout', s.query_timeout_ms * attempt)
            for c in st.pc: sol.add(c)
            sol.add(extra)
            r = sol.check(); s.queries += 1
            if r != z3.unknown: break
        s.solver_time += time.time() - t0
        if r == z3.unknown: s.unknowns += 1; raise Unsupported('solver unknown (feasibility)')
        return r == z3.sat
    def model(s, st, extra=None):
        t0 = time.time()
        for attempt in (1, 6):
            sol = z3.SolverFor('QF_UFBV') if s.fast_logic else z3.Solver()
            sol.set('timeout', s.query_timeout_ms * attempt)
            for c in st.pc: sol.add(c)
            if extra is not None: sol.add(extra)
            r = sol.check(); s.queries += 1
            if r != z3.unknown: break
        s.solver_time += time.time() - t0
        if r == z3.unknown: s.unknowns += 1; raise Unsupported('solver unknown (model)')
        if r != z3.sat: return None
        return sol.model()
    def path_model(s, st):
        """a model of st.pc (cached on the state; every append to st.pc by the engine keeps it valid or replaces it)"""
        if st.model is None:
            st.model = s.model(st)
            if st.model is None: raise PathAbort()
        return st.model

    def concretize(s, st, v, what, limit=64):
        """fork helper: return list of (value, constraint) for symbolic v"""
        out = []
        sol = z3.Solver(); sol.set('timeout', s.query_timeout_ms)
        for c in st.pc: sol.add(c)
        while len(out) <= limit:
            r = sol.check()
            if r == z3.unknown: s.unknowns += 1; raise Unsupported('solver unknown (enumerating values of symbolic %s)' % what)
            if r != z3.sat: break
            m = sol.model(); x = m.eval(v, model_completion=True).as_long()
            out.append(x); sol.add(v != x)
        else:
            raise Unsupported('too many values for symbolic %s' % what)
        s.queries += len(out) + 1
        return out

    # ---------------------------------------------------------------- run
    def call(s, st, name, args, ret_to=None):
        pf = s.func(name)
        fr = Frame(); fr.fn = pf; fr.bi = 0; fr.ii = 0; fr.regs = {}; fr.prev = None; fr.allocas = []; fr.ret_to = ret_to
        for n, a in zip(pf['params'], args): fr.regs[n] = a
        st.frames.append(fr)

    def run(s, st0):
        """explore all paths from st0 (frames already set up); returns list of final states"""
        work = [st0]; done = []
        while work:
            st = work.pop()
            try:
                while st.frames:
                    st.steps += 1
                    if st.steps > s.max_steps: raise Unsupported('step budget exceeded')
                    forks = s.step(st)
                    if forks:
                        s.nfork += len(forks)
                        for o in forks: o.steps0 = o.steps
                        work.extend(forks)
                done.append(st)
            except PathAbort:
                pass
            except Violation as v:
                st.result = ('violation', v.kind, v.msg + ' [in ' + ' <- '.join(fr_.fn['name'][:60] for fr_ in reversed(st.frames[-3:])) + ']'); done.append(st)
            except ProgramExit as x:
                st.result = ('exit', x.code); done.append(st)
            s.total_steps += st.steps - getattr(st, 'steps0', 0)
        return done

    def binop(s, op, a, b, bits):
        if op in ('shl', 'lshr', 'ashr') and bits in (32, 64):
            # a shift count >= the width is undefined in C and poison in LLVM IR; the build users run (x86-64) masks the count to the width, and so does
            # the engine: a change that introduces such a shift (seed C18-6) then shows the value the real binary computes instead of an engine/native mismatch
            b = (b & (bits - 1)) if not is_sym(b) else simp(bv(b, bits) & (bits - 1))
        if not is_sym(a) and not is_sym(b):
            if op == 'add': return mask(a + b, bits)
            if op == 'sub': return mask(a - b, bits)
            if op == 'mul': return mask(a * b, bits)
            if op == 'and': return a & b
            if op == 'or': return a | b
            if op == 'xor': return a ^ b
            if op == 'shl': return mask(a << b, bits) if b < bits else 0
            if op == 'lshr': return a >> b if b < bits else 0
            if op == 'ashr': return mask(sext(a, bits) >> min(b, bits - 1), bits)
            if op == 'udiv': return a // b
            if op == 'urem': return a % b
            if op in ('sdiv', 'srem'):
                x = sext(a, bits); y = sext(b, bits)
                q = abs(x) // abs(y); q = -q if (x < 0) != (y < 0) else q
                return mask(q, bits) if op == 'sdiv' else mask(x - q * y, bits)
        A = bv(a, bits); B = bv(b, bits)
        r = {'add': lambda: A + B, 'sub': lambda: A - B, 'mul': lambda: A * B, 'and': lambda: A & B, 'or': lambda: A | B, 'xor': lambda: A ^ B,
             'shl': lambda: A << B, 'lshr': lambda: z3.LShR(A, B), 'ashr': lambda: A >> B, 'udiv': lambda: z3.UDiv(A, B), 'urem': lambda: z3.URem(A, B),
             'sdiv': lambda: A / B, 'srem': lambda: z3.SRem(A, B)}[op]()
        return simp(r)

    def icmp(s, pred, a, b, bits):
        if not is_sym(a) and not is_sym(b):
            if pred[0] == 's' : a = sext(a, bits); b = sext(b, bits)
            return int({'eq': a == b, 'ne': a != b, 'ult': a < b, 'ule': a <= b, 'ugt': a > b, 'uge': a >= b, 'slt': a < b, 'sle': a <= b, 'sgt': a > b, 'sge': a >= b}[pred])
        A = bv(a, bits); B = bv(b, bits)
        c = {'eq': lambda: A == B, 'ne': lambda: A != B, 'ult': lambda: z3.ULT(A, B), 'ule': lambda: z3.ULE(A, B), 'ugt': lambda: z3.UGT(A, B), 'uge': lambda: z3.UGE(A, B),
             'slt': lambda: A < B, 'sle': lambda: A <= B, 'sgt': lambda: A > B, 'sge': lambda: A >= B}[pred]()
        c = z3.simplify(c)
        if z3.is_true(c): return 1
        if z3.is_false(c): return 0
        return z3.If(c, z3.BitVecVal(1, 1), z3.BitVecVal(0, 1))

    def tobool(s, v):
        if not is_sym(v): return bool(v & 1)
        return z3.simplify(v == 1)

    def branch(s, st, fr, cond, tlab, flab):
        """returns forks; updates st in place for the chosen side"""
        if not is_sym(cond):
            s.jump(st, fr, tlab if cond & 1 else flab); return None
        c = s.tobool(cond)
        if z3.is_true(c): s.jump(st, fr, tlab); return None
        if z3.is_false(c): s.jump(st, fr, flab); return None
        m = s.path_model(st)
        side = z3.is_true(m.eval(c, model_completion=True))      # this side is feasible (witnessed by the cached model)
        oc = z3.Not(c) if side else c
        om = s.model(st, oc)
        if om is not None:
            other = st.clone(); other.pc.append(oc); other.model = om; s.jump(other, other.frames[-1], flab if side else tlab)
            st.pc.append(c if side else z3.Not(c)); s.jump(st, fr, tlab if side else flab)
            return [other]
        s.jump(st, fr, tlab if side else flab); return None      # other side infeasible: condition implied by pc

    def jump(s, st, fr, lab):
        pf = fr.fn
        ni = pf['idx'][lab]
        cur = pf['blocks'][fr.bi][0]
        # phis (parallel)
        vals = []
        for I in pf['blocks'][ni][1]:
            if I['op'] != 'phi': break
            for (v, l) in I['inc']:
                if l == cur:
                    vals.append((I['dst'], s.val(st, fr, I['ty'], v))); break
            else:
                raise Unsupported('phi edge')
        for d, v in vals: fr.regs[d] = v
        fr.prev = cur; fr.bi = ni; fr.ii = len(vals)

    def do_return(s, st, v):
        fr = st.frames.pop()
        for a in fr.allocas:
            st.allocs.pop(a, None)
        if fr.ret_to == 'reexec': return          # a call injected by a stub in front of the caller's current call instruction: that instruction now executes (again)
        if st.frames:
            caller = st.frames[-1]
            I = caller.fn['blocks'][caller.bi][1][caller.ii]
            if I['dst'] is not None and not isinstance(res(I['ty']), VoidT): caller.regs[I['dst']] = v
            if I['op'] == 'invoke': s.jump(st, caller, I['normal'])
            else: caller.ii += 1
            if isinstance(fr.ret_to, tuple) and fr.ret_to[0] == 'post': fr.ret_to[1](st, v)        # post-hook installed by a stub (may push another frame with ret_to='reexec')
        else:
            st.result = ('ret', v)

    def unwind(s, st):
        """exception in flight: pop frames to nearest invoke"""
        while st.frames:
            fr = st.frames[-1]
            I = fr.fn['blocks'][fr.bi][1][fr.ii]
            if I['op'] == 'invoke':
                s.jump(st, fr, I['unwind']); return
            st.frames.pop()
            for a in fr.allocas: st.allocs.pop(a, None)
        st.result = ('uncaught', st.exc)

    def typeid(s, st, v):
        a = s.const(st, PtrT(IntT(8)), v)
        return a & 0x7fffffff

    def exc_matches(s, st, ti_addr):
        cur = st.exc[1]
        for _ in range(8):
            if cur == 0: return False
            if cur == ti_addr: return True
            h = s.stubs.get('ti_base')
            cur = h(s, st, cur) if h else 0
        return False

    def step(s, st):
        fr = st.frames[-1]
        I = fr.fn['blocks'][fr.bi][1][fr.ii]
        op = I['op']; t = res(I['ty']); d = I['dst']
        V = lambda ty, v: s.val(st, fr, ty, v)
        if op in ('add', 'sub', 'mul', 'and', 'or', 'xor', 'shl', 'lshr', 'ashr', 'udiv', 'urem', 'sdiv', 'srem'):
            a = V(t, I['a']); b = V(t, I['b'])
            if op in ('udiv', 'urem', 'sdiv', 'srem'):
                if is_sym(b):
                    if s.feasible(st, b == 0): raise Violation('arith', 'division by zero possible in %s' % fr.fn['name'])
                elif b == 0: raise Violation('arith', 'division by zero in %s' % fr.fn['name'])
            fr.regs[d] = s.binop(op, a, b, t.bits)
        elif op == 'icmp':
            ot = res(I['oty']); bits = 64 if isinstance(ot, PtrT) else ot.bits
            fr.regs[d] = s.icmp(I['pred'], V(ot, I['a']), V(ot, I['b']), bits)
        elif op in ('trunc', 'zext', 'sext'):
            a = V(I['oty'], I['a']); ob = res(I['oty']).bits; nb = t.bits
            if is_sym(a):
                r = z3.Extract(nb - 1, 0, a) if op == 'trunc' else (z3.ZeroExt(nb - ob, a) if op == 'zext' else z3.SignExt(nb - ob, a))
                fr.regs[d] = simp(r)
            else:
                fr.regs[d] = mask(a, nb) if op != 'sext' else mask(sext(a, ob), nb)
        elif op in ('bitcast', 'ptrtoint', 'inttoptr', 'addrspacecast', 'freeze'):
            a = V(I.get('oty', t), I['a'])
            if op == 'ptrtoint' and t.bits < 64: a = mask(a, t.bits) if not is_sym(a) else simp(z3.Extract(t.bits - 1, 0, a))
            fr.regs[d] = a
        elif op == 'alloca':
            n = 1 if I['n'] is None else V(*I['n'])
            if is_sym(n): raise Unsupported('symbolic alloca')
            a = s.alloc(st, max(sizeof(I['aty']) * n, 1), 'stack', max(I['align'] or 1, 1))
            fr.allocas.append(a); fr.regs[d] = a
        elif op == 'load':
            p = V(PtrT(IntT(8)), I['ptr'])
            if is_sym(p):
                r = s.table_load(st, p, t)
                if r is None:
                    if os.environ.get('VERIF_DEBUG_PTR'): print('symbolic load pointer', str(p)[:300], 'in', ' <- '.join(f_.fn['name'][:70] for f_ in reversed(st.frames[-4:])), file=sys.stderr)
                    return s.fork_ptr(st, fr, I, p)
                fr.regs[d] = r
            else:
                fr.regs[d] = s.load_typed(st, p, t)
        elif op == 'store':
            p = V(PtrT(IntT(8)), I['ptr'])
            if is_sym(p): return s.fork_ptr(st, fr, I, p)
            s.store_typed(st, p, res(I['vty']), V(I['vty'], I['v']))
        elif op == 'getelementptr':
            fr.regs[d] = s.gep(st, fr, I['sty'], V(I['bty'], I['base']), I['idx'])
        elif op == 'select':
            c = V(IntT(1), I['c']); a = V(t, I['a']); b = V(t, I['b'])
            if not is_sym(c): fr.regs[d] = a if c & 1 else b
            else:
                bits = 64 if isinstance(t, PtrT) else t.bits
                fr.regs[d] = simp(z3.If(s.tobool(c), bv(a, bits), bv(b, bits)))
        elif op == 'br':
            if 'dest' in I: s.jump(st, fr, I['dest']); return None
            return s.branch(st, fr, V(IntT(1), I['c']), I['t'], I['f'])
        elif op == 'switch':
            v = V(I['sty'], I['v'])
            if not is_sym(v):
                for cv, l in I['cases']:
                    if mask(cv.v, res(I['sty']).bits) == v: s.jump(st, fr, l); return None
                s.jump(st, fr, I['default']); return None
            forks = []; bits = res(I['sty']).bits; neg = []
            for cv, l in I['cases']:
                c = v == mask(cv.v, bits)
                if s.feasible(st, c):
                    o = st.clone(); o.pc.append(c); o.model = None; s.jump(o, o.frames[-1], l); forks.append(o)
                neg.append(v != mask(cv.v, bits))
            dc = z3.And(*neg)
            if s.feasible(st, dc):
                st.pc.append(dc); st.model = None; s.jump(st, fr, I['default']); return forks
            if not forks: raise PathAbort()
            # replace st by first fork
            first = forks.pop(0)
            st.__dict__.update(first.__dict__)
            return forks
        elif op == 'ret':
            s.do_return(st, None if I['v'] is None else V(I['rty'], I['v'])); return None
        elif op == 'unreachable':
            raise Violation('unreachable', 'llvm unreachable executed in %s' % fr.fn['name'])
        elif op in ('call', 'invoke'):
            return s.do_call(st, fr, I)
        elif op == 'landingpad':
            sel = 0
            for cl in I['clauses']:
                if cl[0] == 'catch':
                    if isinstance(cl[2], CNull): sel = 1; break
                    ta = s.const(st, cl[1], cl[2])
                    if s.exc_matches(st, ta): sel = ta & 0x7fffffff; break
            fr.regs[d] = [st.exc[0], sel]
        elif op == 'resume':
            s.unwind_from_resume(st); return None
        elif op == 'extractvalue':
            v = V(I['aty'], I['v'])
            for i in I['idx']: v = v[i]
            fr.regs[d] = v
        elif op == 'insertvalue':
            v = copy.deepcopy(V(t, I['v'])); cur = v
            if not isinstance(cur, list): cur = v = s.zero_agg(t)
            for i in I['idx'][:-1]: cur = cur[i]
            cur[I['idx'][-1]] = V(I['ety'], I['ev'])
            fr.regs[d] = v
        elif op == 'atomicrmw':
            p = V(PtrT(IntT(8)), I['ptr'])
            if is_sym(p): raise Unsupported('symbolic atomicrmw address')
            old = s.load_typed(st, p, t); v = V(t, I['v'])
            bop = {'add': 'add', 'sub': 'sub', 'and': 'and', 'or': 'or', 'xor': 'xor'}.get(I['bop'])
            if I['bop'] == 'xchg': new = v
            elif bop: new = s.binop(bop, old, v, t.bits)
            else: raise Unsupported('atomicrmw ' + I['bop'])
            s.store_typed(st, p, t, new); fr.regs[d] = old
        elif op == 'cmpxchg':
            p = V(PtrT(IntT(8)), I['ptr'])
            et = res(I['ety']); old = s.load_typed(st, p, et); c = V(et, I['cmp']); n = V(et, I['new'])
            if is_sym(old) or is_sym(c): raise Unsupported('symbolic cmpxchg')
            if old == c: s.store_typed(st, p, et, n)
            fr.regs[d] = [old, int(old == c)]
        elif op == 'phi':
            raise Unsupported('phi in middle')
        elif op == 'fence':
            pass
        else:
            raise Unsupported('instr ' + op)
        fr.ii += 1
        return None

    def unwind_from_resume(s, st):
        fr = st.frames.pop()
        for a in fr.allocas: st.allocs.pop(a, None)
        s.unwind(st)

    def fork_ptr(s, st, fr, I, p):
        vals = s.concretize(st, p, 'pointer', limit=256)
        if not vals: raise PathAbort()
        forks = []
        for x in vals[1:]:
            o = st.clone(); o.pc.append(p == x); o.model = None; s.setreg_ptr(o, o.frames[-1], I, x); forks.append(o)
        st.pc.append(p == vals[0]); st.model = None; s.setreg_ptr(st, fr, I, vals[0])
        return forks
    def setreg_ptr(s, st, fr, I, x):
        # substitute the concrete pointer value into the register that held it
        pv = I['ptr']
        if isinstance(pv, Reg): fr.regs[pv.name] = x

    def table_load(s, st, p, t):
        """symbolic index into one constant global table: build an ite chain instead of forking"""
        t = res(t)
        if not isinstance(t, IntT): return None
        m = s.model(st)
        if m is None: raise PathAbort()
        a0 = m.eval(p, model_completion=True).as_long()
        if a0 < 0x40000000: return None
        base = s.find_alloc(st, a0)
        if base is None: return None
        size = s.gallocs[base][0]; n = sizeof(t)
        inb = z3.And(z3.UGE(p, base), z3.ULE(p, base + size - n))
        if s.feasible(st, z3.Not(inb)):
            raise Violation('memory', 'symbolic index can leave the table at %#x (size %d)' % (base, size))
        if size > 4096: return None
        for a in range(base, base + size):
            if a in st.mem: return None          # table was written by this path: not constant
        vals = {}
        for off in range(0, size - n + 1):
            v = mask(int.from_bytes(bytes(s.gmem.get(base + off + i, 0) for i in range(n)), 'little'), t.bits)
            vals.setdefault(v, []).append(off)
        common = max(vals, key=lambda v: len(vals[v]))          # most frequent entry becomes the default of the ite chain
        r = z3.BitVecVal(common, t.bits)
        for v, offs in vals.items():
            if v == common: continue
            c = z3.Or(*[p == base + o for o in offs]) if len(offs) > 1 else (p == base + offs[0])
            r = z3.If(c, z3.BitVecVal(v, t.bits), r)
        return simp(r)

    def load_typed(s, st, p, t):
        t = res(t)
        if isinstance(t, StructT):
            return [s.load_typed(st, p + field_off(t, i), f) for i, f in enumerate(t.fields)]
        if isinstance(t, ArrT):
            return [s.load_typed(st, p + i * sizeof(t.el), t.el) for i in range(t.n)]
        v = s.load(st, p, sizeof(t))
        if isinstance(t, IntT) and t.bits % 8:
            v = mask(v, t.bits) if not is_sym(v) else simp(z3.Extract(t.bits - 1, 0, v))
        return v
    def store_typed(s, st, p, t, v):
        t = res(t)
        if isinstance(t, StructT):
            for i, f in enumerate(t.fields): s.store_typed(st, p + field_off(t, i), f, v[i])
            return
        if isinstance(t, ArrT):
            for i in range(t.n): s.store_typed(st, p + i * sizeof(t.el), t.el, v[i])
            return
        s.store(st, p, sizeof(t), v)

    # ---------------------------------------------------------------- calls
    def finish_call(s, st, fr, I, v=None):
        if I['dst'] is not None and not isinstance(res(I['ty']), VoidT): fr.regs[I['dst']] = v
        if I['op'] == 'invoke': s.jump(st, fr, I['normal'])
        else: fr.ii += 1

    def throw(s, st, obj, ti):
        st.exc = (obj, ti)
        s.unwind(st)

    def do_call(s, st, fr, I):
        callee = I['callee']
        args = [(at, av, info) for (at, av, info) in I['args'] if av is not None]
        A = [s.val(st, fr, at, av) for (at, av, info) in args]
        if isinstance(callee, Glob):
            name = s.E.resolve_alias(callee.name)
        else:
            fp = s.val(st, fr, PtrT(IntT(8)), callee)
            if is_sym(fp): raise Unsupported('symbolic function pointer')
            name = s.addrf.get(fp)
            if name is None: raise Violation('memory', 'call through invalid function pointer %#x' % fp)
            name = s.E.resolve_alias(name)
        for n, (at, av, info) in enumerate(args):
            if 'byval' in info:
                sz = sizeof(info['byval']); a = s.alloc(st, sz, 'stack'); fr.allocas.append(a)
                for i in range(sz): st.mem[a + i] = st.mem.get(A[n] + i, s.gmem.get(A[n] + i, 0))
                A[n] = a
        if name.startswith('@llvm.'):
            return s.intrinsic(st, fr, I, name[6:], A, args)
        h = s.stubs.get(name[1:])
        if h is not None:
            s.stub_hits[name[1:]] = s.stub_hits.get(name[1:], 0) + 1
            for k, (at, av, info) in enumerate(args):
                if is_sym(A[k]) and isinstance(res(at), PtrT):          # stubs receive concrete pointers: fork over the feasible addresses
                    return s.fork_arg(st, fr, I, args, k, 'pointer argument of ' + name[1:40])
            try:
                r = h(s, st, fr, I, A)
            except NeedFork as nf:
                other = st.clone(); other.pc.append(z3.Not(nf.cond)); other.model = None
                st.pc.append(nf.cond); st.model = None
                return [other]
            if isinstance(r, str) and r == 'handled': return None
            if isinstance(r, tuple) and r and r[0] == 'forks': return r[1]
            if not (isinstance(r, tuple) and r and r[0] == 'not_handled'):
                s.finish_call(st, fr, I, r); return None
        f = s.mod.funcs.get(name)
        if f is None or not f.defined:
            raise Unsupported('external function %s' % name)
        s.called.add(name)
        s.call(st, name, A)
        return None

    def fork_arg(s, st, fr, I, args, k, what):
        """argument k of the call at the current instruction is symbolic but must be concrete (address / length):
        fork over its feasible values; each fork re-executes the instruction with the register substituted"""
        av = args[k][1]
        if not isinstance(av, Reg): raise Unsupported('symbolic non-register ' + what)
        term = fr.regs[av.name]
        vals = s.concretize(st, term, what)
        if not vals: raise PathAbort()
        forks = []
        for x in vals[1:]:
            o = st.clone(); o.pc.append(term == x); o.model = None; o.frames[-1].regs[av.name] = x; forks.append(o)
        st.pc.append(term == vals[0]); st.model = None; fr.regs[av.name] = vals[0]
        return forks

    def intrinsic(s, st, fr, I, base, A, args):
        t = res(I['ty'])
        if base.startswith(('memcpy', 'memmove', 'memset')):
            for k in range(3):
                if is_sym(A[k]) and not (k == 1 and base.startswith('memset')):
                    return s.fork_arg(st, fr, I, args, k, base.split('.')[0] + ' argument')
        if base.startswith(('lifetime.', 'dbg.', 'experimental.noalias', 'assume', 'donothing', 'prefetch', 'invariant.end')):
            s.finish_call(st, fr, I, 0); return None
        if base.startswith('invariant.start'):
            s.finish_call(st, fr, I, 0); return None
        if base.startswith(('memcpy', 'memmove')):
            n = A[2]
            if is_sym(n): raise Unsupported('symbolic memcpy length')
            if n:
                s.check(st, A[1], n, 'read'); s.check(st, A[0], n, 'write')
                tmp = [st.mem.get(A[1] + i, s.gmem.get(A[1] + i)) for i in range(n)]
                for i in range(n):
                    b = tmp[i]
                    if b is None: b = z3.BitVec('uninit_%x' % (A[1] + i), 8); st.flags['uninit_read'] = A[1] + i
                    st.mem[A[0] + i] = b
            s.finish_call(st, fr, I); return None
        if base.startswith('memset'):
            n = A[2]
            if is_sym(n): raise Unsupported('symbolic memset length')
            if n:
                s.check(st, A[0], n, 'write')
                v = A[1] if is_sym(A[1]) else A[1] & 0xff
                for i in range(n): st.mem[A[0] + i] = v
            s.finish_call(st, fr, I); return None
        if base.startswith(('umax', 'umin', 'smax', 'smin')):
            pred = {'umax': 'ugt', 'umin': 'ult', 'smax': 'sgt', 'smin': 'slt'}[base[:4]]
            c = s.icmp(pred, A[0], A[1], t.bits)
            if not is_sym(c): r = A[0] if c else A[1]
            else: r = simp(z3.If(s.tobool(c), bv(A[0], t.bits), bv(A[1], t.bits)))
            s.finish_call(st, fr, I, r); return None
        if base.startswith('eh.typeid.for'):
            s.finish_call(st, fr, I, A[0] & 0x7fffffff); return None
        if base.startswith('bswap'):
            if is_sym(A[0]):
                n = t.bits // 8; r = simp(z3.Concat(*[z3.Extract(8 * i + 7, 8 * i, A[0]) for i in range(n)]))
            else: r = int.from_bytes(A[0].to_bytes(t.bits // 8, 'little'), 'big')
            s.finish_call(st, fr, I, r); return None
        if base.startswith(('fshl', 'fshr')):
            b = t.bits
            if is_sym(A[2]): raise Unsupported('symbolic funnel shift amount')
            sh = A[2] % b
            x = z3.Concat(bv(A[0], b), bv(A[1], b))
            r = z3.Extract(2 * b - 1 - sh, b - sh, x) if base.startswith('fshl') else z3.Extract(b - 1 + sh, sh, x)
            s.finish_call(st, fr, I, simp(r)); return None
        m = re.match(r'(u|s)(add|sub|mul)\.with\.overflow\.i(\d+)', base)
        if m:
            sg, o, b = m.group(1), m.group(2), int(m.group(3))
            a, c = A[0], A[1]
            if not is_sym(a) and not is_sym(c):
                if sg == 's': a = sext(a, b); c = sext(c, b)
                r = {'add': a + c, 'sub': a - c, 'mul': a * c}[o]
                ov = int(not (-(1 << (b - 1)) <= r < (1 << (b - 1)))) if sg == 's' else int(not (0 <= r < (1 << b)))
                s.finish_call(st, fr, I, [mask(r, b), ov]); return None
            ext = z3.SignExt if sg == 's' else z3.ZeroExt
            a2 = ext(b, bv(a, b)); c2 = ext(b, bv(c, b))
            r2 = {'add': a2 + c2, 'sub': a2 - c2, 'mul': a2 * c2}[o]
            lo = z3.Extract(b - 1, 0, r2)
            ovc = ext(b, lo) != r2
            s.finish_call(st, fr, I, [simp(lo), simp(z3.If(ovc, z3.BitVecVal(1, 1), z3.BitVecVal(0, 1)))]); return None
        m2 = re.match(r'(u|s)(add|sub)\.sat\.i(\d+)', base)
        if m2:
            sg, o, b = m2.group(1), m2.group(2), int(m2.group(3))
            a, c = A[0], A[1]
            if sg == 'u':
                if not is_sym(a) and not is_sym(c):
                    r = min(a + c, (1 << b) - 1) if o == 'add' else max(a - c, 0)
                else:
                    aa, cc = bv(a, b), bv(c, b)
                    r = simp(z3.If(z3.ULT(aa + cc, aa), z3.BitVecVal((1 << b) - 1, b), aa + cc)) if o == 'add' else simp(z3.If(z3.ULT(aa, cc), z3.BitVecVal(0, b), aa - cc))
                s.finish_call(st, fr, I, r); return None
            raise Unsupported('intrinsic ' + base)
        if base.startswith('trap'):
            raise Violation('trap', 'llvm.trap in %s' % fr.fn['name'])
        if base.startswith('expect'):
            s.finish_call(st, fr, I, A[0]); return None
        if base.startswith(('ctlz', 'cttz', 'ctpop')):
            if is_sym(A[0]): raise Unsupported('symbolic ' + base)
            x = A[0]; b = t.bits
            if base.startswith('ctpop'): r = bin(x).count('1')
            elif base.startswith('ctlz'): r = b - x.bit_length()
            else: r = b if x == 0 else (x & -x).bit_length() - 1
            s.finish_call(st, fr, I, r); return None
        if base.startswith('abs'):
            c = s.icmp('slt', A[0], 0, t.bits)
            neg = s.binop('sub', 0, A[0], t.bits)
            if not is_sym(c): r = neg if c else A[0]
            else: r = simp(z3.If(s.tobool(c), bv(neg, t.bits), bv(A[0], t.bits)))
            s.finish_call(st, fr, I, r); return None
        if base.startswith(('stacksave',)): s.finish_call(st, fr, I, 0); return None
        if base.startswith(('stackrestore',)): s.finish_call(st, fr, I); return None
        if base.startswith('objectsize'): s.finish_call(st, fr, I, mask(-1, t.bits)); return None
        if base.startswith('is.constant'): s.finish_call(st, fr, I, 0); return None
        raise Unsupported('intrinsic ' + base)

# ---------------------------------------------------------------- standard stubs
def install_std_stubs(E):
    S = E.stubs
    def new(E, st, fr, I, A):
        if is_sym(A[0]):
            args = [(at, av, info) for (at, av, info) in I['args'] if av is not None]
            return ('forks', E.fork_arg(st, fr, I, args, 0, 'allocation size'))
        if A[0] > (1 << 32): E.throw(st, 0, E.gaddr_of(st, '@_ZTISt9bad_alloc')); return 'handled'
        return E.alloc(st, A[0], 'heap')
    def mk_delete(kind, what):
        def delete(E, st, fr, I, A):
            p = A[0]
            if is_sym(p): raise Unsupported('symbolic pointer passed to ' + what)
            if p == 0: return None
            info = st.allocs.get(p)
            if info is None or info[1] not in ('heap', 'malloc'): raise Violation('memory', '%s of non-heap or interior pointer %#x' % (what, p))
            if info[1] != kind: raise Violation('memory', 'mismatched deallocation: %s of memory obtained from %s' % (what, 'malloc/strdup' if info[1] == 'malloc' else 'operator new'))
            if p in st.freed: raise Violation('memory', 'double free %#x' % p)
            st.freed.add(p)
            return None
        return delete
    def malloc(E, st, fr, I, A):
        if is_sym(A[0]):
            args = [(at, av, info) for (at, av, info) in I['args'] if av is not None]
            return ('forks', E.fork_arg(st, fr, I, args, 0, 'allocation size'))
        a = E.alloc(st, A[0], 'heap'); st.allocs[a] = (st.allocs[a][0], 'malloc'); return a
    for n in ('_Znwm', '_Znam'): S[n] = new
    S['malloc'] = malloc
    for n in ('_ZdlPv', '_ZdaPv', '_ZdlPvm'): S[n] = mk_delete('heap', 'operator delete')
    S['free'] = mk_delete('malloc', 'free')
    def realloc(E, st, fr, I, A):
        old, n = A
        if is_sym(n):
            args = [(at, av, info) for (at, av, info) in I['args'] if av is not None]
            return ('forks', E.fork_arg(st, fr, I, args, 1, 'reallocation size'))
        a = E.alloc(st, n, 'heap')
        if old:
            osz = st.allocs[old][0]
            for i in range(min(osz, n)):
                if old + i in st.mem: st.mem[a + i] = st.mem[old + i]
            st.freed.add(old)
        st.allocs[a] = (st.allocs[a][0], 'malloc')
        return a
    S['realloc'] = realloc
    def cxa_alloc_exc(E, st, fr, I, A): return E.alloc(st, A[0], 'heap')
    S['__cxa_allocate_exception'] = cxa_alloc_exc
    S['__cxa_free_exception'] = lambda E, st, fr, I, A: None
    def cxa_throw(E, st, fr, I, A):
        E.throw(st, A[0], A[1]); return 'handled'
    S['__cxa_throw'] = cxa_throw
    S['__cxa_begin_catch'] = lambda E, st, fr, I, A: A[0]
    def end_catch(E, st, fr, I, A): return None
    S['__cxa_end_catch'] = end_catch
    def rethrow(E, st, fr, I, A):
        E.unwind(st); return 'handled'
    S['__cxa_rethrow'] = rethrow
    def guard_acquire(E, st, fr, I, A): return int(E.load(st, A[0], 1) == 0)
    def guard_release(E, st, fr, I, A): E.store(st, A[0], 1, 1); return None
    S['__cxa_guard_acquire'] = guard_acquire; S['__cxa_guard_release'] = guard_release
    S['__cxa_guard_abort'] = lambda E, st, fr, I, A: None
    S['__cxa_atexit'] = lambda E, st, fr, I, A: 0
    def terminate(E, st, fr, I, A): raise Violation('terminate', 'std::terminate reached')
    S['_ZSt9terminatev'] = terminate
    def assert_fail(E, st, fr, I, A): raise Violation('assert', 'assert() failed in code under test (%s)' % fr.fn['name'])
    S['__assert_fail'] = assert_fail
    def _exit(E, st, fr, I, A): raise ProgramExit(A[0] if not is_sym(A[0]) else -1)
    S['exit'] = _exit; S['_exit'] = _exit
    S['abort'] = lambda E, st, fr, I, A: (_ for _ in ()).throw(Violation('abort', 'abort() called'))
    def mk_thrower(ti):
        def h(E, st, fr, I, A):
            E.throw(st, 0, E.gaddr_of(st, '@' + ti)); return 'handled'
        return h
    for fn, ti in (('_ZSt20__throw_length_errorPKc', '_ZTISt12length_error'), ('_ZSt19__throw_logic_errorPKc', '_ZTISt11logic_error'),
                   ('_ZSt20__throw_out_of_rangePKc', '_ZTISt12out_of_range'), ('_ZSt24__throw_out_of_range_fmtPKcz', '_ZTISt12out_of_range'),
                   ('_ZSt17__throw_bad_allocv', '_ZTISt9bad_alloc'), ('_ZSt28__throw_bad_array_new_lengthv', '_ZTISt9bad_alloc'),
                   ('_ZSt16__throw_bad_castv', '_ZTISt8bad_cast'), ('_ZSt25__throw_bad_function_callv', '_ZTISt17bad_function_call'),
                   ('_ZSt24__throw_invalid_argumentPKc', '_ZTISt16invalid_argument'), ('_ZSt21__throw_runtime_errorPKc', '_ZTISt13runtime_error'),
                   ('_ZSt20__throw_domain_errorPKc', '_ZTISt12domain_error'), ('_ZSt22__throw_overflow_errorPKc', '_ZTISt14overflow_error'), ('_ZSt19__throw_range_errorPKc', '_ZTISt11range_error')):
        S[fn] = mk_thrower(ti)
    # std type_info hierarchy for externally defined typeinfos
    STD_BASE = {'_ZTISt13runtime_error': '_ZTISt9exception', '_ZTISt11logic_error': '_ZTISt9exception', '_ZTISt12out_of_range': '_ZTISt11logic_error',
                '_ZTISt12length_error': '_ZTISt11logic_error', '_ZTISt16invalid_argument': '_ZTISt11logic_error', '_ZTISt9bad_alloc': '_ZTISt9exception',
                '_ZTISt8bad_cast': '_ZTISt9exception', '_ZTISt17bad_function_call': '_ZTISt9exception', '_ZTISt9exception': None,
                '_ZTINSt8ios_base7failureB5cxx11E': '_ZTISt12system_error', '_ZTISt12system_error': '_ZTISt13runtime_error', '_ZTISt12domain_error': '_ZTISt11logic_error', '_ZTISt14overflow_error': '_ZTISt13runtime_error', '_ZTISt11range_error': '_ZTISt13runtime_error'}
    for k in STD_BASE:
        if ('@' + k) not in E.mod.globals:
            E.mod.globals['@' + k] = dict(name='@' + k, type=ArrT(24, IntT(8)), init=None, const=True, align=8, alias=None)
    def ti_base(E, st, cur):
        # locally defined type_info: {vtable, name, base} for si_class_type_info
        for name, a in E.gaddr.items():
            if a == cur:
                if name[1:] in STD_BASE:
                    b = STD_BASE[name[1:]]
                    return E.gaddr_of(st, '@' + b) if b else 0
                g = E.mod.globals[name]
                if g['init'] is not None and isinstance(g['init'], CAgg) and len(g['init'].elems) == 3:
                    return E.const(st, g['init'].elems[2][0], g['init'].elems[2][1])
                return 0
        return 0
    S['ti_base'] = ti_base
    # runtime_error members
    for n in ('_ZNSt13runtime_errorC2ERKNSt7__cxx1112basic_stringIcSt11char_traitsIcESaIcEEE', '_ZNSt13runtime_errorC1EPKc', '_ZNSt13runtime_errorC2EPKc',
              '_ZNSt13runtime_errorD2Ev', '_ZNSt13runtime_errorD1Ev', '_ZNSt9exceptionD2Ev', '_ZNSt11logic_errorC1EPKc', '_ZNSt11logic_errorD1Ev', '_ZNSt11logic_errorD2Ev',
              '_ZNSt8ios_base4InitC1Ev', '_ZNSt8ios_base4InitD1Ev'):
        S[n] = lambda E, st, fr, I, A: None
    def mk_empty_string(E, st, p):
        E.store(st, p, 8, p + 16); E.store(st, p + 8, 8, 0); E.store(st, p + 16, 1, 0)
    E.mk_empty_string = mk_empty_string
    def str_from_cstr(E, st, fr, I, A): mk_empty_string(E, st, A[0]); return None
    S['_ZNSt7__cxx1112basic_stringIcSt11char_traitsIcESaIcEEC2IS3_EEPKcRKS3_'] = str_from_cstr
    def hexstr(E, st, fr, I, A): mk_empty_string(E, st, A[0]); return None
    S['_Z6HexStrB5cxx114SpanIKhE'] = hexstr
    for n in ('_Z14btc_logf_dummyPKcz', '_Z15btc_logf_stderrPKcz', 'printf', 'fprintf', 'puts', 'putchar', 'fputc', 'fwrite', 'fputs'):
        S[n] = lambda E, st, fr, I, A: 0
    def memcmp(E, st, fr, I, A):
        a, b, n = A
        if is_sym(n): raise Unsupported('symbolic memcmp length')
        r = 0
        for i in reversed(range(n)):
            x = E.load(st, a + i, 1); y = E.load(st, b + i, 1)
            if not is_sym(x) and not is_sym(y):
                if x != y: r = (1 if x > y else mask(-1, 32))
                continue
            X = bv(x, 8); Y = bv(y, 8)
            r = z3.If(X == Y, bv(r, 32), z3.If(z3.UGT(X, Y), z3.BitVecVal(1, 32), z3.BitVecVal(mask(-1, 32), 32)))
        return simp(r) if is_sym(r) else r
    S['memcmp'] = memcmp; S['bcmp'] = memcmp
    def strlen(E, st, fr, I, A):
        n = 0
        while True:
            b = E.load(st, A[0] + n, 1)
            if is_sym(b):
                if E.feasible(st, b == 0): raise Unsupported('strlen: symbolic byte may be NUL (give the token a concrete length)')
                n += 1; continue
            if b == 0: return n
            n += 1
    S['strlen'] = strlen

def fresh_bytes(name, n): return [z3.BitVec('%s_%d' % (name, i), 8) for i in range(n)]

# ---------------------------------------------------------------- libstdc++ std::string out-of-line members (SSO layout)
def install_string_stubs(E):
    S = E.stubs
    def s_ptr(E, st, p): return E.load(st, p, 8)
    def s_len(E, st, p): return E.load(st, p + 8, 8)
    def s_cap(E, st, p): return 15 if s_ptr(E, st, p) == p + 16 else E.load(st, p + 16, 8)
    def s_bytes(E, st, p):
        d = s_ptr(E, st, p); n = s_len(E, st, p)
        if is_sym(n): raise Unsupported('symbolic string length')
        return [E.load(st, d + i, 1) for i in range(n)]
    def s_set(E, st, p, bs):
        n = len(bs)
        if n > s_cap(E, st, p):
            newcap = max(n, 2 * s_cap(E, st, p))
            d = E.alloc(st, newcap + 1, 'heap')
            old = s_ptr(E, st, p)
            if old != p + 16: st.freed.add(old)
            E.store(st, p, 8, d); E.store(st, p + 16, 8, newcap)
        d = s_ptr(E, st, p)
        for i, b in enumerate(bs): E.store(st, d + i, 1, b)
        E.store(st, d + n, 1, 0); E.store(st, p + 8, 8, n)
    E.s_bytes = s_bytes; E.s_set = s_set
    def m_create(E, st, fr, I, A):
        self, capp, old = A
        cap = E.load(st, capp, 8)
        if is_sym(cap): raise Unsupported('symbolic string capacity')
        if cap > old and cap < 2 * old: cap = 2 * old; E.store(st, capp, 8, cap)
        return E.alloc(st, cap + 1, 'heap')
    S['_ZNSt7__cxx1112basic_stringIcSt11char_traitsIcESaIcEE9_M_createERmm'] = m_create
    def m_assign(E, st, fr, I, A):
        if A[0] != A[1]: s_set(E, st, A[0], s_bytes(E, st, A[1]))
        return None
    S['_ZNSt7__cxx1112basic_stringIcSt11char_traitsIcESaIcEE9_M_assignERKS4_'] = m_assign
    def m_append(E, st, fr, I, A):
        self, src, n = A
        if is_sym(n): raise Unsupported('symbolic append length')
        s_set(E, st, self, s_bytes(E, st, self) + [E.load(st, src + i, 1) for i in range(n)]); return self
    S['_ZNSt7__cxx1112basic_stringIcSt11char_traitsIcESaIcEE9_M_appendEPKcm'] = m_append
    def m_replace(E, st, fr, I, A):
        self, pos, n1, src, n2 = A
        cur = s_bytes(E, st, self); new = [E.load(st, src + i, 1) for i in range(n2)]
        s_set(E, st, self, cur[:pos] + new + cur[pos + n1:]); return self
    S['_ZNSt7__cxx1112basic_stringIcSt11char_traitsIcESaIcEE10_M_replaceEmmPKcm'] = m_replace
    def m_replace_aux(E, st, fr, I, A):
        self, pos, n1, n2, c = A
        cur = s_bytes(E, st, self)
        s_set(E, st, self, cur[:pos] + [c if is_sym(c) else c & 0xff] * n2 + cur[pos + n1:]); return self
    S['_ZNSt7__cxx1112basic_stringIcSt11char_traitsIcESaIcEE14_M_replace_auxEmmmc'] = m_replace_aux
    def m_mutate(E, st, fr, I, A):
        self, pos, len1, src, len2 = A
        cur = s_bytes(E, st, self); how_much = len(cur) - pos - len1
        newcap = len(cur) + len2 - len1
        d = E.alloc(st, max(newcap, 2 * s_cap(E, st, self)) + 1, 'heap')
        old = s_ptr(E, st, self)
        for i in range(pos): E.store(st, d + i, 1, cur[i])
        if src and len2:
            for i in range(len2): E.store(st, d + pos + i, 1, E.load(st, src + i, 1))
        for i in range(how_much): E.store(st, d + pos + len2 + i, 1, cur[pos + len1 + i])
        if old != self + 16: st.freed.add(old)
        E.store(st, self, 8, d); E.store(st, self + 16, 8, max(newcap, 2 * 15)); return None
    S['_ZNSt7__cxx1112basic_stringIcSt11char_traitsIcESaIcEE9_M_mutateEmmPKcm'] = m_mutate
    def s_compare(E, st, fr, I, A):
        import libc
        a = s_bytes(E, st, A[0]); bb = libc.cchars(E, st, A[1])
        x = a + [0]; y = bb + [0]; n = min(len(x), len(y)); r = 0
        for i in reversed(range(n)):
            p, q = x[i], y[i]
            if not is_sym(p) and not is_sym(q):
                if p != q: r = 1 if p > q else mask(-1, 32)
                continue
            P = bv(p, 8); Q = bv(q, 8)
            r = z3.If(P == Q, bv(r, 32), z3.If(z3.UGT(P, Q), z3.BitVecVal(1, 32), z3.BitVecVal(mask(-1, 32), 32)))
        return simp(r) if is_sym(r) else r
    S['_ZNKSt7__cxx1112basic_stringIcSt11char_traitsIcESaIcEE7compareEPKc'] = s_compare
    def cstr(E, st, p):
        out = []
        while True:
            b = E.load(st, p + len(out), 1)
            if not is_sym(b) and b == 0: return out
            if is_sym(b) and E.feasible(st, b == 0): raise Unsupported('C string with symbolic byte that may be NUL')
            out.append(b)
    E.cstr = cstr
    def str_from_cstr(E, st, fr, I, A):
        E.store(st, A[0], 8, A[0] + 16); E.store(st, A[0] + 8, 8, 0); E.store(st, A[0] + 16, 1, 0)
        import libc
        s_set(E, st, A[0], libc.cchars(E, st, A[1])); return None
    S['_ZNSt7__cxx1112basic_stringIcSt11char_traitsIcESaIcEEC2IS3_EEPKcRKS3_'] = str_from_cstr
    S['_ZNSt7__cxx1112basic_stringIcSt11char_traitsIcESaIcEEC1IS3_EEPKcRKS3_'] = str_from_cstr
    PFX = '_ZNSt7__cxx1112basic_stringIcSt11char_traitsIcESaIcEE'
    def assign_c(E, st, fr, I, A): s_set(E, st, A[0], cstr(E, st, A[1])); return A[0]
    S[PFX + 'aSEPKc'] = assign_c; S[PFX + '6assignEPKc'] = assign_c
    def move_assign(E, st, fr, I, A):
        if A[0] != A[1]: s_set(E, st, A[0], s_bytes(E, st, A[1])); s_set(E, st, A[1], [])
        return A[0]
    S[PFX + 'aSEOS4_'] = move_assign
    def copy_ctor(E, st, fr, I, A): E.mk_empty_string(E, st, A[0]); s_set(E, st, A[0], s_bytes(E, st, A[1])); return None
    S[PFX + 'C2ERKS4_'] = copy_ctor; S[PFX + 'C1ERKS4_'] = copy_ctor
    def compare_s(E, st, fr, I, A):
        a = s_bytes(E, st, A[0]); b = s_bytes(E, st, A[1])
        if any(is_sym(x) for x in a + b):
            r = bv((len(a) > len(b)) - (len(a) < len(b)) & 0xffffffff, 32)
            for p, q in reversed(list(zip(a, b))):
                P = bv(p, 8); Q = bv(q, 8)
                r = z3.If(P == Q, r, z3.If(z3.UGT(P, Q), z3.BitVecVal(1, 32), z3.BitVecVal(0xffffffff, 32)))
            return simp(r)
        x = bytes(a); y = bytes(b)
        return mask((x > y) - (x < y), 32)
    def find_cstr(E, st, fr, I, A):
        # find(const char* s, size_type pos, size_type n)
        if is_sym(A[2]) or is_sym(A[3]): raise Unsupported('symbolic std::string::find arguments')
        h = s_bytes(E, st, A[0]); n = [E.load(st, A[1] + i, 1) for i in range(A[3])]
        if any(is_sym(x) for x in h + n): raise Unsupported('std::string::find over symbolic characters')
        i = bytes(h).find(bytes(n), A[2])
        return i if i >= 0 else (1 << 64) - 1
    S[PFX.replace('_ZN', '_ZNK') + '7compareERKS4_'] = compare_s; S[PFX.replace('_ZN', '_ZNK') + '4findEPKcmm'] = find_cstr
    def swap_s(E, st, fr, I, A):
        a = s_bytes(E, st, A[0]); b = s_bytes(E, st, A[1]); s_set(E, st, A[0], b); s_set(E, st, A[1], a); return None
    S[PFX + '4swapERS4_'] = swap_s
    def append_c(E, st, fr, I, A): s_set(E, st, A[0], s_bytes(E, st, A[0]) + cstr(E, st, A[1])); return A[0]
    S[PFX + '6appendEPKc'] = append_c; S[PFX + 'pLEPKc'] = append_c
    def append_s(E, st, fr, I, A): s_set(E, st, A[0], s_bytes(E, st, A[0]) + s_bytes(E, st, A[1])); return A[0]
    S[PFX + '6appendERKS4_'] = append_s; S[PFX + 'pLERKS4_'] = append_s
    def push_back(E, st, fr, I, A): s_set(E, st, A[0], s_bytes(E, st, A[0]) + [A[1] if is_sym(A[1]) else A[1] & 0xff]); return None
    S[PFX + '9push_backEc'] = push_back
    def pop_back(E, st, fr, I, A): s_set(E, st, A[0], s_bytes(E, st, A[0])[:-1]); return None
    S[PFX + '8pop_backEv'] = pop_back
    def reserve(E, st, fr, I, A):
        n = A[1] if len(A) > 1 else 0
        if n > s_cap(E, st, A[0]):
            cur = s_bytes(E, st, A[0]); d = E.alloc(st, n + 1, 'heap'); old = s_ptr(E, st, A[0])
            if old != A[0] + 16: st.freed.add(old)
            E.store(st, A[0], 8, d); E.store(st, A[0] + 16, 8, n)
            for i, b in enumerate(cur): E.store(st, d + i, 1, b)
            E.store(st, d + len(cur), 1, 0)
        return None
    S[PFX + '7reserveEm'] = reserve
    def resize(E, st, fr, I, A):
        cur = s_bytes(E, st, A[0]); n = A[1]; c = A[2] if len(A) > 2 else 0
        if is_sym(n): raise Unsupported('symbolic string resize')
        s_set(E, st, A[0], (cur + [c if is_sym(c) else c & 0xff] * max(0, n - len(cur)))[:n]); return None
    S[PFX + '6resizeEmc'] = resize
    def erase(E, st, fr, I, A):
        cur = s_bytes(E, st, A[0]); pos, n = A[1], A[2]
        s_set(E, st, A[0], cur[:pos] + cur[pos + n:]); return None
    S[PFX + '8_M_eraseEmm'] = erase
    def dispose(E, st, fr, I, A):
        old = s_ptr(E, st, A[0])
        if old != A[0] + 16:
            if old in st.freed: raise Violation('memory', 'double free of string buffer')
            st.freed.add(old)
        return None
    S[PFX + '10_M_disposeEv'] = dispose; S[PFX + 'D2Ev'] = dispose; S[PFX + 'D1Ev'] = dispose          # out-of-line destructor = release of the heap buffer
    def construct_nc(E, st, fr, I, A):
        # _M_construct(size_type n, char c) on a string whose _M_p already points at the local buffer
        self, n, c = A
        if is_sym(n): raise Unsupported('symbolic string construct length')
        E.store(st, self, 8, self + 16); E.store(st, self + 8, 8, 0)
        s_set(E, st, self, [c if is_sym(c) else c & 0xff] * n); return None
    S[PFX + '12_M_constructEmc'] = construct_nc
    def s_find_c(E, st, fr, I, A):
        cur = s_bytes(E, st, A[0]); c = A[1] & 0xff; pos = A[2]
        if any(is_sym(x) for x in cur): raise Unsupported('find on symbolic string')
        for i in range(pos, len(cur)):
            if cur[i] == c: return i
        return mask(-1, 64)
    S['_ZNKSt7__cxx1112basic_stringIcSt11char_traitsIcESaIcEE4findEcm'] = s_find_c
    def s_rfind_c(E, st, fr, I, A):
        cur = s_bytes(E, st, A[0]); c = A[1] & 0xff; pos = A[2]
        if not cur: return mask(-1, 64)
        start = len(cur) - 1 if (is_sym(pos) or pos >= len(cur)) else pos
        for i in range(start, -1, -1):
            x = cur[i]
            if is_sym(x):
                may = E.feasible(st, x == c)
                if may and E.feasible(st, x != c): raise NeedFork(x == c)
                if may: return i
            elif x == c: return i
        return mask(-1, 64)
    S['_ZNKSt7__cxx1112basic_stringIcSt11char_traitsIcESaIcEE5rfindEcm'] = s_rfind_c
