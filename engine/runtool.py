"""Run one of the real command-line tools with a pseudo-terminal on chosen standard streams (the tools switch behaviour on isatty)."""
import os, pty, subprocess, select, time

def run(cmd, stdin_tty=True, stdout_tty=False, stdin_data=None, timeout=30, env=None):
    """returns (exit status or -signal, stdout bytes, stderr bytes)"""
    m_in = s_in = m_out = s_out = None
    if stdin_tty: m_in, s_in = pty.openpty()
    if stdout_tty: m_out, s_out = pty.openpty()
    p = subprocess.Popen(cmd, stdin=s_in if stdin_tty else subprocess.PIPE, stdout=s_out if stdout_tty else subprocess.PIPE, stderr=subprocess.PIPE, env=env, close_fds=True)
    if stdin_tty: os.close(s_in)
    if stdout_tty: os.close(s_out)
    out = b''; err = b''
    try:
        if not stdin_tty and not stdout_tty:
            o, e = p.communicate(stdin_data or b'', timeout=timeout); out, err = (o or b''), e
        elif not stdin_tty:
            p.stdin.write(stdin_data or b''); p.stdin.close(); p.stdin = None
            t0 = time.time()
            while time.time() - t0 < timeout:
                r, _, _ = select.select([m_out], [], [], 0.2)
                if r:
                    try: d = os.read(m_out, 65536)
                    except OSError: break
                    if not d: break
                    out += d
                elif p.poll() is not None: break
            err = p.stderr.read(); p.wait(timeout=timeout)
        else:
            if stdin_data: os.write(m_in, stdin_data)
            if stdout_tty:
                t0 = time.time()
                while time.time() - t0 < timeout:
                    r, _, _ = select.select([m_out], [], [], 0.2)
                    if r:
                        try: d = os.read(m_out, 65536)
                        except OSError: break
                        if not d: break
                        out += d
                    elif p.poll() is not None: break
                _, err = p.communicate(timeout=timeout)
            else:
                o, err = p.communicate(timeout=timeout); out = o or b''
    except subprocess.TimeoutExpired:
        p.kill(); p.communicate(); return None, out, err
    finally:
        for fd in (m_in, m_out):
            if fd is not None:
                try: os.close(fd)
                except OSError: pass
    return p.returncode, out, err
