"""Process-environment stubs for running a tool's real main() inside the engine: argv, getopt_long (GNU semantics incl. permutation),
stdin/stdout/stderr handles, isatty/fileno, printf-family capture (stdout/stderr text captured as lists of byte terms), fgets from a
scripted stdin.  Everything is listed in the evidence as part of the environment model."""
import z3
from irsym import is_sym, bv, simp, mask, sext, Unsupported, Violation, PathAbort
import libc

FD_PTR = {0: 0x7f000010, 1: 0x7f000020, 2: 0x7f000030}
PTR_FD = {v: k for k, v in FD_PTR.items()}

def install(E, tty=(1, 0, 1), stdin_data=None):
    """tty: isatty() answers for fds 0,1,2.  stdin_data: bytes available to fgets (None = EOF immediately)"""
    S = E.stubs
    for fd, nm in ((0, '@stdin'), (1, '@stdout'), (2, '@stderr')):
        def hook(E, st, addr, fd=fd):
            for i in range(8): E.gmem[addr + i] = (FD_PTR[fd] >> (8 * i)) & 0xff
        S[('global', nm)] = hook
    S['fileno'] = lambda E, st, fr, I, A: PTR_FD.get(A[0], 3)
    S['isatty'] = lambda E, st, fr, I, A: st.aux.get('tty', tty)[A[0]] if (not is_sym(A[0]) and A[0] in (0, 1, 2)) else 0
    S['getenv'] = lambda E, st, fr, I, A: 0
    S['secure_getenv'] = S['getenv']
    def out_append(st, fd, chars):
        key = 'out%d' % fd
        st.aux[key] = list(st.aux.get(key, [])) + list(chars)
    E.out_append = out_append
    def fmt(E, st, fmtp, A, ai):
        """printf-style formatting: returns list of chars. supports %s %d %i %u %ld %lld %zu %c %x %02x %04d %% (enough for the tools' messages)"""
        f = bytes(libc.cchars(E, st, fmtp)); out = []; i = 0
        while i < len(f):
            c = f[i]
            if c != 37: out.append(c); i += 1; continue
            j = i + 1
            while j < len(f) and chr(f[j]) in '0123456789-+ #.': j += 1
            spec = f[i + 1:j].decode(); mod = ''
            while j < len(f) and chr(f[j]) in 'lhzjt': mod += chr(f[j]); j += 1
            conv = chr(f[j]); i = j + 1
            if conv == '%': out.append(37); continue
            v = A[ai]; ai += 1
            if conv == 's':
                out += libc.cchars(E, st, v) if v else list(b'(null)')
            elif conv == 'c': out.append(v if is_sym(v) else v & 0xff)
            elif conv in 'diux':
                bits = 64 if mod in ('l', 'll', 'z', 'j', 't') else 32
                if is_sym(v):
                    if conv == 'x' and spec == '02':
                        b = simp(z3.Extract(7, 0, v))
                        if E.feasible(st, z3.UGT(v, 255) if v.size() > 8 else z3.BoolVal(False)): raise Unsupported('symbolic %02x argument may exceed one byte')
                        for nib in (z3.LShR(b, 4), b & 0xf): out.append(simp(z3.If(z3.ULT(nib, 10), nib + 0x30, nib + 0x57)))
                    elif not spec: out += [z3.BitVec('fmtnum_%d' % E.fresh(), 8)]          # opaque: a symbolic number in a message stands for its digits (only used in diagnostics)
                    else: raise Unsupported('symbolic value in %%%s%s' % (spec, conv))
                else:
                    x = mask(v, bits)
                    if conv in 'di': x = sext(x, bits)
                    out += list((('%' + spec + conv) % x).encode())
            else: raise Unsupported('printf conversion %%%s' % conv)
        return out
    E.fmt = fmt
    def printf(E, st, fr, I, A): cs = fmt(E, st, A[0], A, 1); out_append(st, 1, cs); return len(cs)
    def fprintf(E, st, fr, I, A): cs = fmt(E, st, A[1], A, 2); out_append(st, PTR_FD.get(A[0], 2), cs); return len(cs)
    def puts(E, st, fr, I, A): cs = libc.cchars(E, st, A[0]); out_append(st, 1, cs + [10]); return 1
    def putchar(E, st, fr, I, A): out_append(st, 1, [A[0] if is_sym(A[0]) else A[0] & 0xff]); return A[0]
    def fputs(E, st, fr, I, A): out_append(st, PTR_FD.get(A[1], 2), libc.cchars(E, st, A[0])); return 1
    def fputc(E, st, fr, I, A): out_append(st, PTR_FD.get(A[1], 2), [A[0] if is_sym(A[0]) else A[0] & 0xff]); return A[0]
    def fwrite(E, st, fr, I, A):
        n = A[1] * A[2]; out_append(st, PTR_FD.get(A[3], 2), [E.load(st, A[0] + i, 1) for i in range(n)]); return A[2]
    S['printf'] = printf; S['fprintf'] = fprintf; S['puts'] = puts; S['putchar'] = putchar; S['fputs'] = fputs; S['fputc'] = fputc; S['putc'] = fputc; S['fwrite'] = fwrite
    S['fflush'] = lambda E, st, fr, I, A: 0
    # btc_logf_stderr(fmt, ...) and dummy
    S['_Z15btc_logf_stderrPKcz'] = lambda E, st, fr, I, A: 0
    S['_Z14btc_logf_dummyPKcz'] = lambda E, st, fr, I, A: 0
    def fgets(E, st, fr, I, A):
        buf, n, fp = A
        data = st.aux.get('stdin', stdin_data)
        if data is None or len(data) == 0: return 0            # EOF: buffer untouched
        line = []
        while data and len(line) < n - 1:
            c = data[0]; data = data[1:]; line.append(c)
            if not is_sym(c) and c == 10: break
        st.aux['stdin'] = data
        for i, c in enumerate(line): E.store(st, buf + i, 1, c)
        E.store(st, buf + len(line), 1, 0)
        return buf
    S['fgets'] = fgets

    # ---- getopt_long
    def getopt_long(E, st, fr, I, A):
        argc, argv, optstr, longopts, idxp = A
        if is_sym(argc): raise Unsupported('symbolic argc')
        g = dict(st.aux.get('getopt') or dict(next=1, nonopts=[], done=False))
        optind_a = E.gaddr_of(st, '@optind'); optarg_a = E.gaddr_of(st, '@optarg')
        def arg(i): return E.load(st, argv + 8 * i, 8)
        def cstr(p): return bytes(x for x in libc.cchars(E, st, p)) if not any(is_sym(x) for x in libc.cchars(E, st, p)) else None
        # long option table
        table = []; k = 0
        while True:
            name = E.load(st, longopts + 32 * k, 8)
            if name == 0: break
            table.append((bytes(libc.cchars(E, st, name)), E.load(st, longopts + 32 * k + 8, 4), E.load(st, longopts + 32 * k + 24, 4))); k += 1
        def finish():
            # permute: options first (already consumed in order), then the non-options
            opts = [arg(i) for i in range(1, g['next']) if i not in g['nonopts']]
            rest = [arg(i) for i in g['nonopts']] + [arg(i) for i in range(g['next'], argc)]
            for n_, p in enumerate(opts + rest): E.store(st, argv + 8 * (1 + n_), 8, p)
            E.store(st, optind_a, 4, 1 + len(opts)); g['done'] = True; st.aux['getopt'] = g
            return mask(-1, 32)
        if g['done']: return mask(-1, 32)
        while True:
            i = g['next']
            if i >= argc: return finish()
            p = arg(i); c0 = E.load(st, p, 1); c1 = E.load(st, p + 1, 1) if not (not is_sym(c0) and c0 == 0) else 0
            if is_sym(c0):
                if E.feasible(st, c0 == 45): raise Unsupported('argument may or may not start with "-" (constrain it)')
                c0 = 0x61
            if c0 != 45 or (not is_sym(c1) and c1 == 0):
                g['nonopts'] = g['nonopts'] + [i]; g['next'] = i + 1; continue
            chars = libc.cchars(E, st, p)
            # the option name must be concrete; its attached value may be symbolic
            if is_sym(chars[1]): raise Unsupported('symbolic option letter')
            if chars[1] == 45:
                j = 2
                while j < len(chars) and not is_sym(chars[j]) and chars[j] != 61: j += 1
                if j < len(chars) and is_sym(chars[j]): raise Unsupported('symbolic character inside a long option name')
                s = bytes(chars[:j]) + (b'=' + b'?' * (len(chars) - j - 1) if j < len(chars) else b'')
            else:
                s = bytes(chars[:2]) + b'?' * (len(chars) - 2)
            g['next'] = i + 1
            if s == b'--': return finish()
            E.store(st, optarg_a, 8, 0)
            if s.startswith(b'--'):
                body = s[2:]; name, eq, val = body.partition(b'=')
                cands = [t for t in table if t[0] == name] or [t for t in table if t[0].startswith(name)]
                if len(cands) != 1: st.aux['getopt'] = g; return 63
                nm, has, v = cands[0]
                if has == 0 and eq: st.aux['getopt'] = g; return 63
                if has != 0:
                    if eq: E.store(st, optarg_a, 8, p + 2 + len(name) + 1)
                    elif has == 1:
                        if g['next'] >= argc: st.aux['getopt'] = g; return 63
                        E.store(st, optarg_a, 8, arg(g['next'])); g['next'] += 1
                st.aux['getopt'] = g; return v
            # short option (one per argument is all the tools' users need; clusters are outside the model)
            ch = s[1]
            cands = [t for t in table if t[2] == ch]
            if not cands: st.aux['getopt'] = g; return 63
            nm, has, v = cands[0]
            if has == 0:
                if len(s) > 2: raise Unsupported('short option cluster')
            else:
                if len(s) > 2: E.store(st, optarg_a, 8, p + 2)
                elif has == 1:
                    if g['next'] >= argc: st.aux['getopt'] = g; return 63
                    E.store(st, optarg_a, 8, arg(g['next'])); g['next'] += 1
            st.aux['getopt'] = g; return v
    S['getopt_long'] = getopt_long

def make_argv(E, st, args):
    """args: list of byte lists (may contain 8-bit terms, must not contain NUL). returns (argc, argv_ptr)"""
    ptrs = []
    for a in args:
        p = E.alloc(st, len(a) + 1, 'heap')
        for i, b in enumerate(a): st.mem[p + i] = b
        st.mem[p + len(a)] = 0; ptrs.append(p)
    av = E.alloc(st, 8 * (len(ptrs) + 1), 'heap')
    for i, p in enumerate(ptrs + [0]): E.store(st, av + 8 * i, 8, p)
    return len(ptrs), av

# ------------------------------------------------------------------ tinyformat::format<...>(fmt, args...) : precise model
import re as _re
def _pack_kinds(mangled):
    m = _re.match(r'_ZN10tinyformat6formatIJ(.*?)EE(?:ENSt7__cxx1112basic_string|ES\d*_)', mangled)
    body = m.group(1) if m else ''
    kinds = []; i = 0
    STR = 'NSt7__cxx1112basic_stringIcSt11char_traitsIcESaIcEEE'
    while i < len(body):
        if body.startswith(STR, i): kinds.append('str'); i += len(STR)
        elif body.startswith('PKc', i): kinds.append('cstr'); i += 3
        elif body.startswith('S', i) and _re.match(r'S\d*_', body[i:]): kinds.append('cstr'); i += len(_re.match(r'S\d*_', body[i:]).group(0))
        elif body[i].isdigit():
            n = int(_re.match(r'\d+', body[i:]).group(0)); i += len(str(n)) + n; kinds.append('i')
        else: kinds.append(body[i]); i += 1
    return kinds

def install_tinyformat(E):
    def handler(E, st, fr, I, A):
        name = I['callee'].name[1:] if hasattr(I['callee'], 'name') else ''
        name = _re.sub(r'\.tu\d+$', '', name)
        kinds = _pack_kinds(name)
        sret, fmtp = A[0], A[1]; argp = A[2:]
        f = bytes(libc.cchars(E, st, fmtp)); out = []; i = 0; ai = 0
        def argchars(k, p):
            if k == 'str': return E.s_bytes(E, st, p)
            if k == 'cstr': return libc.cchars(E, st, E.load(st, p, 8))
            return None
        def argint(k, p):
            size = {'i': 4, 'j': 4, 'l': 8, 'm': 8, 'c': 1, 'h': 1, 'x': 8, 'y': 8, 's': 2, 't': 2, 'b': 1}.get(k, 4)
            v = E.load(st, p, size)
            if is_sym(v): return v, size
            if k in ('i', 'l', 'x', 's'): v = sext(v, 8 * size)
            return v, size
        while i < len(f):
            c = f[i]
            if c != 37: out.append(c); i += 1; continue
            j = i + 1
            while j < len(f) and chr(f[j]) in '0123456789-+ #.': j += 1
            spec = f[i + 1:j].decode()
            while j < len(f) and chr(f[j]) in 'lhzjt': j += 1
            conv = chr(f[j]); i = j + 1
            if conv == '%': out.append(37); continue
            k = kinds[ai]; p = argp[ai]; ai += 1
            cs = argchars(k, p)
            if cs is not None: out += cs; continue
            v, size = argint(k, p)
            if conv == 'c' or (k == 'c' and conv == 's'): out.append(v if is_sym(v) else v & 0xff); continue
            if is_sym(v):
                if conv == 'x' and spec == '02' and v.size() == 8:
                    for nib in (z3.LShR(v, 4), v & 0xf): out.append(simp(z3.If(z3.ULT(nib, 10), nib + 0x30, nib + 0x57)))
                else: out.append(z3.BitVec('fmtopaque_%d' % E.fresh(), 8))
                continue
            if conv in 'xX': out += list((('%' + spec + conv) % (v & ((1 << (8 * size)) - 1))).encode())
            else: out += list((('%' + spec + 'd') % v).encode())
        E.store(st, sret, 8, sret + 16); E.store(st, sret + 8, 8, 0); E.store(st, sret + 16, 1, 0)
        E.s_set(E, st, sret, out)
        return None
    E.stubs.prefixes = [(p, h) for (p, h) in E.stubs.prefixes if p != '_ZN10tinyformat6formatI']
    E.stubs.prefix('_ZN10tinyformat6formatI', handler)
