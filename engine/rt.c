/* C++ runtime / libstdc++ out-of-line pieces, modelled */
#include "rt.h"
int ir_exc_flag; uint8_t* ir_exc_obj; uint8_t* ir_exc_ti; int ir_terminated;

/* type_info objects: {vtable*, name*, base*}; vtable word tells si (has base) from plain class */
uint8_t _ZTVN10__cxxabiv120__si_class_type_infoE[64];
uint8_t _ZTVN10__cxxabiv117__class_type_infoE[64];
#define TI_SI(name, base) uint8_t name[24] __attribute__((aligned(8)))
#define TI_ROOT(name) uint8_t name[24] __attribute__((aligned(8)))
TI_ROOT(_ZTISt9exception);
TI_SI(_ZTISt13runtime_error, _ZTISt9exception);
TI_SI(_ZTISt11logic_error, _ZTISt9exception);
TI_SI(_ZTISt12out_of_range, _ZTISt11logic_error);
TI_SI(_ZTISt12length_error, _ZTISt11logic_error);
TI_SI(_ZTISt16invalid_argument, _ZTISt11logic_error);
TI_SI(_ZTISt9bad_alloc, _ZTISt9exception);
TI_SI(_ZTISt20bad_array_new_length, _ZTISt9bad_alloc);
TI_SI(_ZTISt8bad_cast, _ZTISt9exception);
TI_SI(_ZTISt17bad_function_call, _ZTISt9exception);

void ir_rt_init(void) {
  ((uint8_t**)_ZTISt9exception)[0] = _ZTVN10__cxxabiv117__class_type_infoE + 16;
  ((uint8_t**)_ZTISt13runtime_error)[0] = _ZTVN10__cxxabiv120__si_class_type_infoE + 16; ((uint8_t**)_ZTISt13runtime_error)[2] = _ZTISt9exception;
  ((uint8_t**)_ZTISt11logic_error)[0] = _ZTVN10__cxxabiv120__si_class_type_infoE + 16; ((uint8_t**)_ZTISt11logic_error)[2] = _ZTISt9exception;
  ((uint8_t**)_ZTISt12out_of_range)[0] = _ZTVN10__cxxabiv120__si_class_type_infoE + 16; ((uint8_t**)_ZTISt12out_of_range)[2] = _ZTISt11logic_error;
  ((uint8_t**)_ZTISt12length_error)[0] = _ZTVN10__cxxabiv120__si_class_type_infoE + 16; ((uint8_t**)_ZTISt12length_error)[2] = _ZTISt11logic_error;
  ((uint8_t**)_ZTISt16invalid_argument)[0] = _ZTVN10__cxxabiv120__si_class_type_infoE + 16; ((uint8_t**)_ZTISt16invalid_argument)[2] = _ZTISt11logic_error;
  ((uint8_t**)_ZTISt9bad_alloc)[0] = _ZTVN10__cxxabiv120__si_class_type_infoE + 16; ((uint8_t**)_ZTISt9bad_alloc)[2] = _ZTISt9exception;
  ((uint8_t**)_ZTISt20bad_array_new_length)[0] = _ZTVN10__cxxabiv120__si_class_type_infoE + 16; ((uint8_t**)_ZTISt20bad_array_new_length)[2] = _ZTISt9bad_alloc;
  ((uint8_t**)_ZTISt8bad_cast)[0] = _ZTVN10__cxxabiv120__si_class_type_infoE + 16; ((uint8_t**)_ZTISt8bad_cast)[2] = _ZTISt9exception;
  ((uint8_t**)_ZTISt17bad_function_call)[0] = _ZTVN10__cxxabiv120__si_class_type_infoE + 16; ((uint8_t**)_ZTISt17bad_function_call)[2] = _ZTISt9exception;
}
int ir_exc_matches(uint8_t* catch_ti) {
  uint8_t* cur = ir_exc_ti;
  for (int i = 0; i < 6 && cur; i++) {
    if (cur == catch_ti) return 1;
    uint8_t** t = (uint8_t**)cur;
    if (t[0] != _ZTVN10__cxxabiv120__si_class_type_infoE + 16) return 0;
    cur = t[2];
  }
  return 0;
}
static void ir_throw_std(void* ti) { ir_exc_flag = 1; ir_exc_obj = malloc(16); ir_exc_ti = (uint8_t*)ti; }

uint8_t* ir__cxa_allocate_exception(uint64_t n) { uint8_t* p = malloc(n); __CPROVER_assume(p != 0); return p; }
void ir__cxa_free_exception(uint8_t* p) { }
void ir__cxa_throw(uint8_t* obj, uint8_t* ti, uint8_t* dtor) { ir_exc_flag = 1; ir_exc_obj = obj; ir_exc_ti = ti; }
uint8_t* ir__cxa_begin_catch(uint8_t* p) { return p; }
void ir__cxa_end_catch(void) { }
void ir__cxa_rethrow(void) { ir_exc_flag = 1; }
uint32_t ir__cxa_guard_acquire(uint8_t* g) { return *g == 0; }
void ir__cxa_guard_release(uint8_t* g) { *g = 1; }
void ir__cxa_guard_abort(uint8_t* g) { }
uint32_t ir__cxa_atexit(uint8_t* f, uint8_t* a, uint8_t* d) { return 0; }
void _ZSt9terminatev(void) { ir_terminated = 1; __CPROVER_assert(0, "std::terminate reached"); __CPROVER_assume(0); }
void ir__assert_fail(uint8_t* a, uint8_t* f, uint32_t l, uint8_t* fn) { ir_terminated = 1; __CPROVER_assert(0, "assert() failed in code under test"); __CPROVER_assume(0); }

uint8_t* _Znwm(uint64_t n) { uint8_t* p = malloc(n); __CPROVER_assume(p != 0); return p; }
uint8_t* _Znam(uint64_t n) { uint8_t* p = malloc(n); __CPROVER_assume(p != 0); return p; }
void _ZdlPv(uint8_t* p) { free(p); }
void _ZdaPv(uint8_t* p) { free(p); }
void _ZdlPvm(uint8_t* p, uint64_t n) { free(p); }

void _ZSt20__throw_length_errorPKc(uint8_t* m) { ir_throw_std(_ZTISt12length_error); }
void _ZSt19__throw_logic_errorPKc(uint8_t* m) { ir_throw_std(_ZTISt11logic_error); }
void _ZSt20__throw_out_of_rangePKc(uint8_t* m) { ir_throw_std(_ZTISt12out_of_range); }
void _ZSt17__throw_bad_allocv(void) { ir_throw_std(_ZTISt9bad_alloc); }
void _ZSt28__throw_bad_array_new_lengthv(void) { ir_throw_std(_ZTISt20bad_array_new_length); }
void _ZSt16__throw_bad_castv(void) { ir_throw_std(_ZTISt8bad_cast); }
void _ZSt25__throw_bad_function_callv(void) { ir_throw_std(_ZTISt17bad_function_call); }
void ir_throw_out_of_range_fmt(void) { ir_throw_std(_ZTISt12out_of_range); }

/* std::runtime_error out-of-line members: message is not modelled */
void _ZNSt13runtime_errorC2ERKNSt7__cxx1112basic_stringIcSt11char_traitsIcESaIcEEE(uint8_t* self, uint8_t* s) { }
void _ZNSt13runtime_errorC1EPKc(uint8_t* self, uint8_t* s) { }
void _ZNSt13runtime_errorC2EPKc(uint8_t* self, uint8_t* s) { }
void _ZNSt13runtime_errorD2Ev(uint8_t* self) { }
void _ZNSt13runtime_errorD1Ev(uint8_t* self) { }
uint8_t* _ZNKSt13runtime_error4whatEv(uint8_t* self) { static uint8_t w[1]; return w; }
void _ZNSt9exceptionD2Ev(uint8_t* self) { }

/* std::string out-of-line pieces (libstdc++ SSO layout: {char* p; size_t len; union{cap; char buf[16]}}) */
uint8_t* _ZNSt7__cxx1112basic_stringIcSt11char_traitsIcESaIcEE9_M_createERmm(uint8_t* self, uint8_t* capp, uint64_t old) { uint64_t* cap = (uint64_t*)capp;
  uint8_t* p = malloc(*cap + 1); __CPROVER_assume(p != 0); return p;
}
/* std::string(const char*, alloc): contents of strings built from literals are not modelled (empty string) */
void ir_mk_empty_string(uint8_t* self) { *(uint8_t**)self = self + 16; *(uint64_t*)(self + 8) = 0; self[16] = 0; }
void _ZNSt7__cxx1112basic_stringIcSt11char_traitsIcESaIcEEC2IS3_EEPKcRKS3_(uint8_t* self, uint8_t* s, uint8_t* a) { ir_mk_empty_string(self); }
/* logging hooks of debugger/script.cpp: function-pointer globals; calls through them are dropped by ir2c */
uint8_t btc_logf[8], btc_sign_logf[8], btc_sighash_logf[8], btc_segwit_logf[8], btc_taproot_logf[8], btcdeb_verbose[8], ir_g_stderr[8], ir_g_stdout[8], __dso_handle[8];
uint8_t _ZTVN10__cxxabiv119__pointer_type_infoE[64], _ZTVN10__cxxabiv120__function_type_infoE[64];
/* HexStr(Span) -> std::string : formatting is not modelled */
void _Z6HexStrB5cxx114SpanIKhE(uint8_t* sret, uint8_t* p, uint64_t n) { ir_mk_empty_string(sret); }
void _Z14btc_logf_dummyPKcz(uint8_t* fmt, ...) { }
void _Z15btc_logf_stderrPKcz(uint8_t* fmt, ...) { }
