"""Reference-side hash models.  SHA-256 / RIPEMD-160 / SHA-1 are modelled as Merkle-Damgard chains over one
uninterpreted compression function each (the same z3 function objects the engine's stubs use); padding, length encoding,
chaining, double hashing and tagged hashing are written here from the specifications, independently of the repository code.
With concrete inputs the SHA-256 compression is computed for real, so tag midstates are true constants."""
import z3, struct, hashlib
from irsym import is_sym, bv, simp

SHA256C = z3.Function('sha256c', z3.BitVecSort(256), z3.BitVecSort(512), z3.BitVecSort(256))
RMD160C = z3.Function('ripemd160c', z3.BitVecSort(160), z3.BitVecSort(512), z3.BitVecSort(160))
SHA1C = z3.Function('sha1c', z3.BitVecSort(160), z3.BitVecSort(512), z3.BitVecSort(160))

K = [0x428a2f98,0x71374491,0xb5c0fbcf,0xe9b5dba5,0x3956c25b,0x59f111f1,0x923f82a4,0xab1c5ed5,0xd807aa98,0x12835b01,0x243185be,0x550c7dc3,0x72be5d74,0x80deb1fe,0x9bdc06a7,0xc19bf174,0xe49b69c1,0xefbe4786,0x0fc19dc6,0x240ca1cc,0x2de92c6f,0x4a7484aa,0x5cb0a9dc,0x76f988da,0x983e5152,0xa831c66d,0xb00327c8,0xbf597fc7,0xc6e00bf3,0xd5a79147,0x06ca6351,0x14292967,0x27b70a85,0x2e1b2138,0x4d2c6dfc,0x53380d13,0x650a7354,0x766a0abb,0x81c2c92e,0x92722c85,0xa2bfe8a1,0xa81a664b,0xc24b8b70,0xc76c51a3,0xd192e819,0xd6990624,0xf40e3585,0x106aa070,0x19a4c116,0x1e376c08,0x2748774c,0x34b0bcb5,0x391c0cb3,0x4ed8aa4a,0x5b9cca4f,0x682e6ff3,0x748f82ee,0x78a5636f,0x84c87814,0x8cc70208,0x90befffa,0xa4506ceb,0xbef9a3f7,0xc67178f2]
IV256 = [0x6a09e667,0xbb67ae85,0x3c6ef372,0xa54ff53a,0x510e527f,0x9b05688c,0x1f83d9ab,0x5be0cd19]
IV160 = [0x67452301, 0xEFCDAB89, 0x98BADCFE, 0x10325476, 0xC3D2E1F0]

def rotr(x, n): return ((x >> n) | (x << (32 - n))) & 0xffffffff
def _compress_concrete(state, block):
    w = list(struct.unpack('>16I', bytes(block)))
    for i in range(16, 64):
        s0 = rotr(w[i-15], 7) ^ rotr(w[i-15], 18) ^ (w[i-15] >> 3); s1 = rotr(w[i-2], 17) ^ rotr(w[i-2], 19) ^ (w[i-2] >> 10)
        w.append((w[i-16] + s0 + w[i-7] + s1) & 0xffffffff)
    a,b,c,d,e,f,g,h = state
    for i in range(64):
        S1 = rotr(e,6)^rotr(e,11)^rotr(e,25); ch = (e&f)^((~e)&g); t1 = (h+S1+ch+K[i]+w[i]) & 0xffffffff
        S0 = rotr(a,2)^rotr(a,13)^rotr(a,22); mj = (a&b)^(a&c)^(b&c); t2 = (S0+mj) & 0xffffffff
        h,g,f,e,d,c,b,a = g,f,e,(d+t1)&0xffffffff,c,b,a,(t1+t2)&0xffffffff
    return [(x+y)&0xffffffff for x,y in zip(state,[a,b,c,d,e,f,g,h])]

def _cat(xs, bits): return simp(z3.Concat(*[bv(x, bits) for x in xs])) if len(xs) > 1 else bv(xs[0], bits)

def uf_compress(F, state, blk, nwords):
    r = F(_cat(state, 32), _cat(blk, 8)); top = 32 * nwords - 1
    return [simp(z3.Extract(top - 32 * i, top - 31 - 32 * i, r)) for i in range(nwords)]

def _norm(xs):
    """z3 numerals count as concrete"""
    return [x.as_long() if (is_sym(x) and z3.is_bv_value(x)) else x for x in xs]

def sha256_compress(state, blk):
    """state: 8 words, blk: 64 bytes (ints or terms)"""
    state = _norm(state); blk = _norm(blk)
    if not any(is_sym(x) for x in list(state) + list(blk)): return _compress_concrete(state, blk)
    return uf_compress(SHA256C, state, blk, 8)

def _md_pad(prefix_len, data, big_endian_len):
    total = prefix_len + len(data)
    msg = list(data) + [0x80]
    while (prefix_len + len(msg)) % 64 != 56: msg.append(0)
    msg += list((8 * total).to_bytes(8, 'big' if big_endian_len else 'little'))
    return msg

def _words_to_bytes(state, big):
    out = []
    for w in state:
        ks = (24, 16, 8, 0) if big else (0, 8, 16, 24)
        for k in ks: out.append(simp(z3.Extract(k + 7, k, w)) if is_sym(w) else (w >> k) & 0xff)
    return out

def sha256_from(state, nbytes_before, data):
    msg = _md_pad(nbytes_before, data, True); state = list(state)
    for off in range(0, len(msg), 64): state = sha256_compress(state, msg[off:off + 64])
    return _words_to_bytes(state, True)
def sha256(data): return sha256_from(IV256, 0, data)
def hash256(data): return sha256(sha256(data))

def rotl(x, n): return ((x << n) | (x >> (32 - n))) & 0xffffffff
_RL = [0,1,2,3,4,5,6,7,8,9,10,11,12,13,14,15, 7,4,13,1,10,6,15,3,12,0,9,5,2,14,11,8, 3,10,14,4,9,15,8,1,2,7,0,6,13,11,5,12, 1,9,11,10,0,8,12,4,13,3,7,15,14,5,6,2, 4,0,5,9,7,12,2,10,14,1,3,8,11,6,15,13]
_RR = [5,14,7,0,9,2,11,4,13,6,15,8,1,10,3,12, 6,11,3,7,0,13,5,10,14,15,8,12,4,9,1,2, 15,5,1,3,7,14,6,9,11,8,12,2,10,0,4,13, 8,6,4,1,3,11,15,0,5,12,2,13,9,7,10,14, 12,15,10,4,1,5,8,7,6,2,13,14,0,3,9,11]
_SL = [11,14,15,12,5,8,7,9,11,13,14,15,6,7,9,8, 7,6,8,13,11,9,7,15,7,12,15,9,11,7,13,12, 11,13,6,7,14,9,13,15,14,8,13,6,5,12,7,5, 11,12,14,15,14,15,9,8,9,14,5,6,8,6,5,12, 9,15,5,11,6,8,13,12,5,12,13,14,11,8,5,6]
_SR = [8,9,9,11,13,15,15,5,7,7,8,11,14,14,12,6, 9,13,15,7,12,8,9,11,7,7,12,7,6,15,13,11, 9,7,15,11,8,6,6,14,12,13,5,14,13,13,7,5, 15,5,8,11,14,14,6,14,6,9,12,9,12,5,15,8, 8,5,12,9,12,5,14,6,8,13,6,5,15,13,11,11]
_KL = [0, 0x5A827999, 0x6ED9EBA1, 0x8F1BBCDC, 0xA953FD4E]; _KR = [0x50A28BE6, 0x5C4DD124, 0x6D703EF3, 0x7A6D76E9, 0]
def _rmd_f(j, x, y, z):
    if j == 0: return x ^ y ^ z
    if j == 1: return (x & y) | (~x & z & 0xffffffff)
    if j == 2: return ((x | (~y & 0xffffffff)) ^ z)
    if j == 3: return (x & z) | (y & ~z & 0xffffffff)
    return x ^ (y | (~z & 0xffffffff))
def _rmd_compress_concrete(state, block):
    X = list(struct.unpack('<16I', bytes(block)))
    al, bl, cl, dl, el = state; ar, br, cr, dr, er = state
    for j in range(80):
        r = j // 16
        t = (rotl((al + _rmd_f(r, bl, cl, dl) + X[_RL[j]] + _KL[r]) & 0xffffffff, _SL[j]) + el) & 0xffffffff
        al, el, dl, cl, bl = el, dl, rotl(cl, 10), bl, t
        t = (rotl((ar + _rmd_f(4 - r, br, cr, dr) + X[_RR[j]] + _KR[r]) & 0xffffffff, _SR[j]) + er) & 0xffffffff
        ar, er, dr, cr, br = er, dr, rotl(cr, 10), br, t
    t = (state[1] + cl + dr) & 0xffffffff
    return [t, (state[2] + dl + er) & 0xffffffff, (state[3] + el + ar) & 0xffffffff, (state[4] + al + br) & 0xffffffff, (state[0] + bl + cr) & 0xffffffff]
def _sha1_compress_concrete(state, block):
    w = list(struct.unpack('>16I', bytes(block)))
    for i in range(16, 80): w.append(rotl(w[i-3] ^ w[i-8] ^ w[i-14] ^ w[i-16], 1))
    a, b, c, d, e = state
    for i in range(80):
        if i < 20: f = (b & c) | (~b & d & 0xffffffff); k = 0x5A827999
        elif i < 40: f = b ^ c ^ d; k = 0x6ED9EBA1
        elif i < 60: f = (b & c) | (b & d) | (c & d); k = 0x8F1BBCDC
        else: f = b ^ c ^ d; k = 0xCA62C1D6
        t = (rotl(a, 5) + f + e + k + w[i]) & 0xffffffff
        e, d, c, b, a = d, c, rotl(b, 30), a, t
    return [(x + y) & 0xffffffff for x, y in zip(state, [a, b, c, d, e])]
def rmd160_compress(state, blk):
    state = _norm(state); blk = _norm(blk)
    if not any(is_sym(x) for x in list(state) + list(blk)): return _rmd_compress_concrete(state, blk)
    return uf_compress(RMD160C, state, blk, 5)
def sha1_compress(state, blk):
    state = _norm(state); blk = _norm(blk)
    if not any(is_sym(x) for x in list(state) + list(blk)): return _sha1_compress_concrete(state, blk)
    return uf_compress(SHA1C, state, blk, 5)
def ripemd160(data):
    msg = _md_pad(0, data, False); state = list(IV160)
    for off in range(0, len(msg), 64): state = rmd160_compress(state, msg[off:off + 64])
    return _words_to_bytes(state, False)
def sha1(data):
    msg = _md_pad(0, data, True); state = list(IV160)
    for off in range(0, len(msg), 64): state = sha1_compress(state, msg[off:off + 64])
    return _words_to_bytes(state, True)
def hash160(data): return ripemd160(sha256(data))

def tagged(tag, data):
    """BIP340 tagged hash: SHA256(SHA256(tag) || SHA256(tag) || data)"""
    th = hashlib.sha256(tag).digest()
    mid = _compress_concrete(IV256, th + th)
    return sha256_from(mid, 64, data)

def compact_size(n):
    if n < 253: return [n]
    if n <= 0xffff: return [253] + list(n.to_bytes(2, 'little'))
    if n <= 0xffffffff: return [254] + list(n.to_bytes(4, 'little'))
    return [255] + list(n.to_bytes(8, 'little'))


# ------------------------------------------------------------------ grounding: tie the uninterpreted compression function to the real one at concrete points
def ground_sha256(data, tag=None):
    """constraints SHA256C(state, block) == real compression for every block of the (tagged) SHA-256 of the concrete byte string `data`.
    Adding them to a satisfiable query forces the model's hash values on these inputs to be the real ones (they are true facts of SHA-256)."""
    data = bytes(data)
    if tag is not None:
        th = hashlib.sha256(tag).digest(); state = _compress_concrete(IV256, th + th); before = 64
    else: state = list(IV256); before = 0
    msg = _md_pad(before, list(data), True); cons = []
    for off in range(0, len(msg), 64):
        blk = msg[off:off + 64]; ns = _compress_concrete(state, blk)
        cons.append(SHA256C(_cat(state, 32), _cat(blk, 8)) == _cat(ns, 32))
        state = ns
    return cons
